#!/usr/bin/env python3
"""Regenerates /verif/MANIFEST.json from the table below (kept valid at all times)."""
import json, os

HERE = os.path.dirname(os.path.abspath(__file__))

SYMX_NOTE = ("Trusted base: go/ssa construction (x/tools v0.29.0), the symx interpreter's SSA semantics "
             "(cross-checked every run by replaying solver models of explored paths against the native build), "
             "the engine-side models of assembly byte kernels / fmt / sync, the solvers (z3 5.1.0 incremental; z3 4.8.12, z3 5.1.0 and cvc5 1.0 as stand-alone portfolio). "
             "Bounded claim only: nothing outside the stated bound is covered.")

CLAIMED = {
    "C03": dict(
        engine="symx",
        technique="symbolic execution of the real go/ssa code, path conditions decided by z3 (bounded model checking over all byte strings up to N)",
        text=("Every byte string up to the length bound is covered symbolically: txtar.Parse, findFileMarker, isMarker, fixNL and x/tools txtar.Format/Parse "
              "are executed from their SSA form with all input bytes as 8-bit solver variables; each branch side is explored or refuted by z3. "
              "Asserted: no panic; Parse(Format(Parse(x))) == Parse(x); agreement with the reference parser on CR-free input; well-formed archives round-trip; CRLF marker lines equal LF ones."),
        design_ref="DESIGN.md §4 C03",
    ),
}

CLAIMED["C14"] = dict(
    engine="symx",
    technique="symbolic execution of the real go/ssa code, path conditions decided by z3 (bounded model checking over all bodies up to N bytes)",
    text=("NeedsQuote, Quote, Unquote, Parse and Format are executed symbolically on every body up to the length bound. Asserted: NeedsQuote(data) is true exactly when "
          "Parse(Format({f,data})) is not the single file f with fixNL(data); for accepted data Unquote(Quote(d)) == d, the quoted form needs no quoting and round-trips; "
          "Quote refuses only data without final newline or invalid UTF-8 (independent RFC 3629 reference predicate)."),
    design_ref="DESIGN.md §4 C14",
)

CLAIMED["C08"] = dict(
    engine="symx",
    technique="symbolic execution of diff.Diff from go/ssa with symbolic line contents; z3 decides every line-equality pattern; independent patch applier as oracle",
    text=("diff.Diff, lines and tgs (with sort.Search, the map of line counts, bytes.Buffer and the fmt calls) are executed symbolically with one solver variable per line; the path "
          "forks exactly on the equality pattern among lines, so all alphabets are covered. The output is read back by an independent unified-diff parser/applier in the harness: "
          "header literal, hunks ascending and non-overlapping, start/count consistent with the body (GNU convention for count 0), context and deletions equal the old lines, "
          "forward application yields the new text and reverse application the old text, with and without final newline; nil iff byte-identical."),
    design_ref="DESIGN.md §4 C08",
)
CLAIMED["C19"] = dict(
    engine="symx",
    technique="symbolic execution of ShouldBuild/matchTags/matchTag/MatchFile from go/ssa with the tag set as symbolic booleans; z3 compares against a reference evaluator for every generated constraint/file name",
    text=("Every tag set over the vocabulary is covered at once (one solver boolean per tag); +build lines, leading-comment-block structure and file names are enumerated "
          "from grammars by solver-chosen selectors; the result is compared with a reference evaluator written from the property text; path witnesses are replayed natively."),
    design_ref="DESIGN.md §4 C19",
)

CLAIMED["C18"] = dict(
    engine="symx",
    technique="symbolic execution of ReadImports/importReader (with bufio.Reader and bytes.Reader) from go/ssa; z3 decides all separator/comment/path bytes; go/parser cross-check on replayed witnesses",
    text=("ReadImports and the importReader state machine are executed symbolically. Valid files are generated from token skeletons whose separator slots, comment bodies, aliases and path "
          "literals are solver variables; the import list and the end of the import section are known by construction (and re-derived with go/parser on each natively replayed witness). "
          "Asserted: same imports in order, result is a prefix of the input (BOM aside) covering the import section. For arbitrary bytes: no panic, prefix property, and whole-input "
          "return when syntax errors are not requested."),
    design_ref="DESIGN.md §4 C18",
)

CLAIMED["C02"] = dict(
    engine="symx",
    technique="symbolic execution of (*TestScript).parse/expand (with os.Expand and regexp.QuoteMeta from SSA) against a reference tokenizer; z3 decides every line byte",
    text=("(*TestScript).parse, expand, Setenv/Getenv and the env builtin are executed symbolically: (a) every line up to the length bound is compared with a reference tokenizer written "
          "from the documentation; (b) any list of words with arbitrary bytes, quoted and joined, parses back to exactly those words; (c) after any bounded history of assignments, "
          "$K, ${K} and ${K@R} expand to the latest value inside one word, without re-splitting or re-expansion, and the environment list agrees with the variable map."),
    design_ref="DESIGN.md §4 C02",
)

FS_NOTE = SYMX_NOTE + (" File system, clock and SHA-256 are models (harness/internal/verifrt/vfs): every os/(*os.File)/time.Now/crypto/sha256 call of the code under test is redirected to them; "
    "counterexamples of these checks are confirmed by concrete re-execution of the real SSA under the model (not by a native run).")
CLAIMED["C05"] = dict(
    engine="symx",
    technique="symbolic execution of the real cache code (Get/get/GetFile/GetBytes/OutputFile/used/Put/put/copyFile/putIndexEntry) from go/ssa over a file-system model; z3 decides data bytes, damaged bytes and index-entry bytes",
    text=("The cache's lookup and store paths are executed symbolically over a modelled file system whose file contents are solver variables. Histories of Put/GetBytes/GetFile with symbolic data "
          "must return exactly the stored bytes; after any single damage step (delete, truncate, overwrite a byte with any value, append) lookups must be not-found or checksum/size-consistent and "
          "never panic; a re-Put repairs; index entries with windows of arbitrary bytes, any truncation/extension and a fully arbitrary OutputID field are accepted only as what they spell for this id."),
    design_ref="DESIGN.md §4 C05",
    note=FS_NOTE,
)

CLAIMED["C12"] = dict(
    engine="symx",
    technique="symbolic execution of the real Put/copyFile/putIndexEntry code over a file-system model with a solver-chosen crash point / failing operation / short write / misbehaving source reader",
    text=("Every file-operation boundary of Put is a possible stop (operations after the crash point have no effect) or a failing operation (a failing write leaves a solver-chosen prefix); "
          "the source reader may fail at any offset in either pass, fail to seek, end early or change its bytes. Afterwards a fresh Cache value must see: GetBytes not-found or bytes hashing to the "
          "reported OutputID (and equal to some Put's bytes), GetFile's file of the reported size holding bytes with that OutputID, and the unrelated entry intact."),
    design_ref="DESIGN.md §4 C12",
    note=FS_NOTE,
)
CLAIMED["C13"] = dict(
    engine="symx",
    technique="symbolic execution of Trim/trimSubdir/used (with lockedfile.Read/Write) from go/ssa over a file-system model with symbolic modification times and last-trim record; z3 (+ stand-alone portfolio) decides the time arithmetic",
    text=("Trim, trimSubdir and used are executed symbolically: file ages, the decimal digits of the last-trim record and the time of a preceding lookup are solver variables. Asserted: no effect when a trim "
          "completed less than a day ago; entries used within five days, looked-up entries and non-entry files are never removed; when due, entries older than five days plus one hour are removed and the trim time is recorded."),
    design_ref="DESIGN.md §4 C13",
    note=FS_NOTE,
)

CLAIMED["C06"] = dict(
    engine="symx",
    technique="assume-guarantee: per-holder lock protocol decided by symbolic execution of the real lockedfile/filelock code (flag word and syscall results symbolic, z3), kernel flock contract assumed",
    text=("The property quantifies over processes; what the code contributes is the per-holder protocol, and that is decided on the real code for every flag word and every scripted flock outcome: "
          "exclusive lock iff the access mode writes, lock taken on the opened descriptor before any content access (O_TRUNC is applied under the lock), a File is returned iff the lock was granted and is still held, "
          "error paths close the descriptor, Close unlocks that descriptor exactly once strictly before closing it, every entry point takes the documented lock. Exclusion then follows from the flock(2) contract."),
    design_ref="DESIGN.md §4 C06",
    note=FS_NOTE,
)
CLAIMED["C07"] = dict(
    engine="symx",
    technique="symbolic execution of lockedfile.Read/Write/Transform over a file model with symbolic contents, short reads and a solver-chosen failing operation; serialisation by C06 (assume-guarantee)",
    text=("Read returns exactly the contents under arbitrary short reads; Write and Transform publish exactly the new contents for every old/new length relation; Transform sees the latest contents; "
          "with a failure injected at any file operation it performs (a failing WriteAt having written any prefix) or in the user function, the previous contents remain and the error is returned. "
          "Concurrent linearizability is the composition of this with C06's exclusion (stated two-phase-locking argument)."),
    design_ref="DESIGN.md §4 C07",
    note=FS_NOTE,
)

CLAIMED["C15"] = dict(
    engine="symx",
    technique="symbolic execution of txtar.Write (with filepath.Clean/Join from SSA) over a file-system model; entry names are arbitrary symbolic byte strings decided by z3",
    text=("Claimed for Write (the part txtar-x is built on): for every entry name up to the length bound (all byte values: separators, '.', '..', empty and absolute segments) and pre-existing files, "
          "every node created in the model lies strictly beneath the directory, no pre-existing file changes, names that a reference segment-stack normaliser classifies as absolute or escaping yield an error, "
          "and on success each file holds exactly its entry's data. The txtar-c/txtar-x tree round trip is outside the claim."),
    design_ref="DESIGN.md §4 C15",
    note=FS_NOTE,
)

CLAIMED["C01"] = dict(
    engine="symx",
    technique="symbolic execution of the real RunT/(*TestScript).run/runLine/condition/builtins from go/ssa over a file-system model, against a reference verdict evaluator; z3 decides probe outcomes, condition values and file contents",
    text=("Scoped to the verdict engine: scripts are generated from a menu of line shapes by solver-chosen selectors; user-command outcomes, condition values, compared file contents and ContinueOnError are solver variables. "
          "RunT, setup, the line loop, runLine, condition, parse, Fatalf/catchFailNow and the builtins stop/skip/exists/cmp/mkdir/chmod run from their SSA. Asserted against a reference evaluator: pass/fail/skip verdict, "
          "the log names the first offending line by file and number, lines after the first failure (or behind a false condition) have no effect, ContinueOnError runs every line and still fails, the parent fails iff the script failed."),
    design_ref="DESIGN.md §4 C01",
    note=FS_NOTE,
)

CLAIMED["C16"] = dict(
    engine="symx",
    technique="symbolic execution of RunT/run/doCmdCmp/applyScriptUpdates with txtar.NeedsQuote/Quote/Format/Parse from go/ssa over a file-system model; golden and actual contents decided by z3; second run on the rewritten script",
    text=("With golden contents, the actual text, the comparison form (cmp / ! cmp / cmpenv; archive entry or outside file) and UpdateScripts as solver variables: the run passes iff every mismatch was updatable; "
          "the bytes written to the script path parse to the same script text, the same entry names in order, byte-identical untouched entries and the updated entry holding the actual text (quoted exactly when it contains a marker line); "
          "nothing is written for outside files, cmpenv and negated cmp; re-running the rewritten script without UpdateScripts passes and writes nothing when the content is representable."),
    design_ref="DESIGN.md §4 C16",
    note=FS_NOTE,
)

CLAIMED["C04"] = dict(
    engine="symx",
    technique="symbolic execution of RunT/setup/run/Defer/removeAll from go/ssa over a file-system and environment model; exit kind, host environment and retention flags decided by z3",
    text=("Claimed in part (scripts run one at a time): after setup the work directory holds exactly the archive's files, the script environment contains only the documented variables, Setup's additions and the "
          "GOCOVERDIR/GORACE pass-through (no other host variable or value), deferred functions run in reverse order on pass, fail, skip and stop, and the work directory and - after the last script - the temp root are removed "
          "unless TestWork/WorkdirRoot ask to keep them (read-only directories included); also when Params.Setup itself ends the run. Over a process model (background commands that exit by themselves or run until signalled; exec, os.Process and waitOrStop stubbed; the waiting goroutine run by symx's deferred-goroutine model): when RunT ends - pass, wait, failing line, skip, stop - every started process has ended and been waited for. Interference between scripts running in parallel goroutines and real OS processes are not claimed."),
    design_ref="DESIGN.md §4 C04, §0.8",
    note=FS_NOTE,
)

CLAIMED["C11"] = dict(
    engine="symx",
    technique="symbolic execution of the real Put and lookup code over a snapshot-versioned file-system model: the reader's observation points (one snapshot index per file operation, monotone) and torn-write offsets are solver-chosen, data bytes symbolic",
    text=("One writer and one reader: the writer's PutBytes runs on a model that records a snapshot after every mutation (each multi-byte write also half done); the reader's GetBytes/GetFile then runs with every file operation "
          "observing a solver-chosen later-or-equal snapshot, which covers every interleaving of their file operations. Asserted: a successful lookup returns bytes some Put stored for that id with matching digest and size, "
          "re-storing identical content never makes the lookup miss, and a lookup started after the writer finished returns the latest bytes."),
    design_ref="DESIGN.md §4 C11",
    note=FS_NOTE,
)

TSYS_NOTE = ("Trusted base: go/ssa construction, the tsys translator's semantics for the supported SSA instruction kinds (anything else aborts as unsupported), the contracts used for "
    "sync.Mutex / sync.Cond (no spurious wake-ups) / sync.Map / sync/atomic / rand.Intn, sequentially consistent memory (supported by the data-race query), z3 5.1.0. "
    "Critical sections are fused into one transition (Lipton reduction) only for accesses made while holding the protecting mutex. Counterexamples are replayed on the real work.go under a cooperative scheduler shim. "
    "Bounded claim only.")
CLAIMED["C09"] = dict(
    engine="tsys",
    technique="bounded model checking: par.Work's go/ssa is translated to a transition system; scheduler, rand.Intn picks, Signal wake-up choices, item graph and initial adds are solver variables; z3 decides safety, deadlock and an unwinding assertion",
    text=("(*Work).Do, runner, Add and init are translated from their SSA form into guarded transitions (one per scheduling point; lock-protected regions fused) and unrolled K steps with the scheduler as a bit-vector per step. "
          "z3 shows, for every schedule, every rand.Intn pick, every choice of woken waiter, every item graph and every set of initial adds inside the bound: f runs at most once per item and exactly once for every added item, never more than n calls in progress, "
          "Do returns only when everything is done and nothing is left, no deadlock, no lost wake-up (no state with the mutex free in which a runner sleeps while more items are queued than runners have been woken and are on their way), and every schedule finishes within K steps (unwinding assertion); a witness run must exist."),
    design_ref="DESIGN.md §4 C09",
    note=TSYS_NOTE,
)
CLAIMED["C10"] = dict(
    engine="tsys",
    technique="bounded model checking: par.Cache's go/ssa translated to a transition system with a symbolic scheduler and solver-chosen call kinds; z3 decides safety, deadlock, data-race freedom and an unwinding assertion",
    text=("(*Cache).Do and Get are translated from SSA; each goroutine performs one call chosen by the solver from Do/Get on two keys; sync.Map and atomic operations are individual transitions. z3 shows for every schedule inside the bound: "
          "the function is invoked at most once per key, every Do returns that invocation's value and only after it completed, Get returns nil or that value and never blocks (no deadlock), and no two goroutines are simultaneously enabled at conflicting plain accesses to an entry's result."),
    design_ref="DESIGN.md §4 C10",
    note=TSYS_NOTE,
)

CLAIMED["C17"] = dict(
    engine="tsys",
    technique="bounded model checking of testscript.waitOrStop (go/ssa -> transition system: waiting goroutine, helper goroutine, process, deadline and timer as interleaved processes; z3 decides safety, deadlock and the unwinding assertion) plus symbolic execution (symx) of RunT's deadline arithmetic and cmdExec's attribution with the distance to the deadline as a 64-bit solver variable",
    text=("PART of the property, stated as such. (1) tsys: waitOrStop and its helper goroutine are translated from SSA (unbuffered channel, both selects, closure cells); the command's process, the context deadline and the kill-delay timer are "
          "environment processes whose behaviour (exits by itself or blocks, honours or ignores the interrupt, exit status, deadline set or not) is chosen by the solver. For every interleaving inside the bound z3 shows: no signal before the deadline; kill only after "
          "the interrupt and after the grace-period timer fired; with a deadline set (or a process that exits by itself) waitOrStop and its helper always finish, i.e. a process that ignores the interrupt is killed; it returns only after the process was waited for; a process signalled while running is reported with a non-nil error; an unsignalled one with Wait's own result. "
          "(2) symx: through the real RunT/run/cmdExec/exec with stubs for the clock, context.WithTimeout, exec and waitOrStop: grace period = max(100ms, 5% of the remaining time) for every remaining time in [-2^40, 2^55] ns, the run context expires exactly two grace periods before Params.Deadline, foreground commands wait on that context with kill delay one grace period, a command error after the context expired fails the script with the timed-out message, and a run without deadline or a command that succeeds is unaffected. "
          "NOT claimed: wall-clock completion of RunT and its subtests, real process liveness, scheduling slack."),
    design_ref="DESIGN.md §0.6",
    note=TSYS_NOTE,
)

CLAIMED["C20"] = dict(
    engine="symx",
    technique="symbolic execution of goproxytest's readModList, handler, readArchive and findHash-free paths from go/ssa over a generated module directory in the file-system model (stored set and file contents chosen by the solver), with net/http's NotFound/Error, archive/zip and par.Cache.Do stubbed",
    text=("PART of the property, stated as such. The real module discovery (file-name decoding with module.UnescapePath/UnescapeVersion from x/mod, interpreted from SSA), request routing and unescaping, list filtering (isPseudoVersion, module.Check), archive loading for all three layouts (.txtar, .txt, directory via filepath.WalkDir over the model) and the info/mod/zip responses are executed symbolically: "
          "which of eight menu entries are stored and one content byte per module are solver variables, the request is any endpoint for any menu module or an unknown one. Asserted: list = exactly the stored valid non-pseudo versions (404 if none); .info/.mod bodies byte-identical to the stored files; the zip receives exactly the stored files whose names do not start with a dot, under path@version/, with identical contents; 404 with empty body for everything not stored or unknown. "
          "NOT claimed: the zip container encoding (archive/zip is replaced by a recorder), the HTTP transport, commit-hash (all-hex) version resolution, and responses under concurrent requests (the handler's only shared mutable state are two par.Cache values, whose once-per-key behaviour is C10's claim)."),
    design_ref="DESIGN.md §0.7",
)

NOT_APPLICABLE = {
}

PENDING_REASON = "check not built yet in this session (planned, see DESIGN.md §9); not claimed until it runs clean"

def main():
    props = [json.loads(l) for l in open(os.path.join(HERE, "properties.jsonl"))]
    checks = []
    na = []
    for p in props:
        pid = p["id"]
        if pid in CLAIMED:
            c = CLAIMED[pid]
            checks.append({
                "property_id": pid,
                "quick_cmd": "/verif/verif check %s --tier quick" % pid,
                "thorough_cmd": "/verif/verif check %s --tier thorough" % pid,
                "evidence_file": "/verif/evidence/%s.json" % pid,
                "replay_cmd_template": "/verif/verif replay {path}",
                "engine": c["engine"],
                "level_claimed": {"category": "model_checking", "text": c["text"], "design_ref": c["design_ref"]},
                "level_note": c.get("note", SYMX_NOTE),
                "technique": c["technique"],
            })
        else:
            na.append({"property_id": pid, "reason": NOT_APPLICABLE.get(pid, PENDING_REASON)})
    engines = [
        {"name": "symx", "path": "/verif/symx",
         "serves_properties": sorted(k for k, v in CLAIMED.items() if v["engine"] == "symx"),
         "kind_free_text": "symbolic executor over the go/ssa form of /repo's working tree (rebuilt every run); bit-vector path conditions discharged by z3; counterexamples replayed against the native build"},
    ]
    ts = sorted(k for k, v in CLAIMED.items() if v["engine"] == "tsys")
    if ts:
        engines.append({"name": "tsys", "path": "/verif/tsys", "serves_properties": ts,
                        "kind_free_text": "go/ssa -> bounded transition system with symbolic scheduler, unrolled and decided by z3"})
    m = {
        "version": 1,
        "setup_cmd": "/verif/verif setup",
        "hooks": {
            "guard": "verif",
            "enable": "no hook commits in /repo: harness files (//go:build verif) and the verifrt package are injected through go/packages Overlay for the symbolic run (tags verif,symx) and through `go test -overlay` for native replay (tag verif); /repo is never written by a check",
            "baseline_off_cmd": "cd /repo && go test -mod=mod -json -vet=off -count=1 -timeout 25m ./...",
            "source_commits": [],
            "add_only": True,
        },
        "engines": engines,
        "checks": checks,
        "not_applicable": na,
        "notes": "Exit codes: 0 = every query inside the registered bound discharged and witnesses reached; 1 = replay-confirmed violation (VIOLATION line); 2 = inconclusive (unsupported construct, solver unknown, unwinding bound, vacuity, engine self-check) with no VIOLATION line. Fix commits in /repo are listed in known_findings.txt as fixed: entries.",
    }
    json.dump(m, open(os.path.join(HERE, "MANIFEST.json"), "w"), indent=1)
    print("checks:", [c["property_id"] for c in checks], "not_applicable:", len(na))

if __name__ == "__main__":
    main()
