//go:build verif

package cache

import (
	rt "github.com/rogpeppe/go-internal/internal/verifrt"
	"github.com/rogpeppe/go-internal/internal/verifrt/vfs"
)

// VerifC05History: every history of up to OPS operations from
// {PutBytes, GetBytes, GetFile} over two action IDs with symbolic data,
// with at most one on-disk damage step at a symbolic position.
func VerifC05History() {
	fsys := vfs.New()
	fsys.NowSec = 1700000000
	c := vNewCache(fsys)
	nops := rt.IntRange(1, rt.Param("OPS", 3))
	L := rt.Param("L", 2)
	damageAt := rt.IntRange(-1, nops-1) // damage after this op (-1: none)
	if rt.Param("DAMAGE", 1) == 0 {
		damageAt = -1
	}
	var stored [2][]byte // what the last successful Put stored per id
	var have [2]bool     // stored and not possibly damaged since
	var everPut [2]bool
	for op := 0; op < nops; op++ {
		i := rt.IntRange(0, 1)
		id := vIDs[i]
		switch rt.IntRange(0, 2) {
		case 0:
			d := vData(L)
			err := c.PutBytes(id, d)
			rt.Assert(err == nil, "put-succeeds-without-faults")
			stored[i], have[i], everPut[i] = d, true, true
			// storing the same content for the other id shares the output
			// file: a repair of a damaged output also repairs that entry
			rt.Reach("put")
		case 1:
			got, ok := vCheckGetBytes(c, id)
			if have[i] {
				rt.Assert(ok, "getbytes-finds-stored-entry")
				if ok {
					rt.Assert(len(got) == len(stored[i]), "getbytes-length")
					rt.Assert(rt.BytesEq(got, stored[i]), "getbytes-returns-stored-bytes")
					rt.Reach("getbytes-hit")
				}
			} else if !everPut[i] {
				rt.Assert(!ok, "getbytes-unknown-id-is-not-found")
				rt.Reach("getbytes-miss")
			}
		case 2:
			got, ok := vCheckGetFile(c, fsys, id)
			if have[i] {
				rt.Assert(ok, "getfile-finds-stored-entry")
				if ok {
					rt.Assert(len(got) == len(stored[i]), "getfile-length")
					rt.Assert(rt.BytesEq(got, stored[i]), "getfile-holds-stored-bytes")
					rt.Reach("getfile-hit")
				}
			} else if !everPut[i] {
				rt.Assert(!ok, "getfile-unknown-id-is-not-found")
			}
		}
		if op == damageAt {
			vDamage(c, fsys)
			have[0], have[1] = false, false
			rt.Reach("damaged")
		}
	}
}

// vDamage alters one index or data file on disk: delete, truncate to a
// symbolic length, overwrite one byte, or append one byte.
func vDamage(c *Cache, fsys *vfs.FS) {
	// candidate files: the two index entries and the pool digests' data files
	var cands []string
	for _, id := range vIDs {
		if p := vIndexPath(c, id); fsys.Exists(p) {
			cands = append(cands, p)
		}
	}
	for k := 0; k < 4; k++ {
		var out OutputID
		copy(out[:], vPoolDigest(k))
		if p := vDataPath(c, out); fsys.Exists(p) {
			cands = append(cands, p)
		}
	}
	if len(cands) == 0 {
		return
	}
	path := cands[rt.IntRange(0, len(cands)-1)]
	n := fsys.File(path)
	switch rt.IntRange(0, 3) {
	case 0:
		delete(fsys.Nodes, path)
	case 1:
		if len(n.Data) > 8 {
			// long (index) files: representative truncation lengths
			lens := []int{0, 1, 3, 67, 100, 133, 174}
			n.Data = n.Data[:lens[rt.IntRange(0, len(lens)-1)]]
		} else if len(n.Data) > 0 {
			n.Data = n.Data[:rt.IntRange(0, len(n.Data)-1)]
		}
	case 2:
		if len(n.Data) > 0 {
			j := rt.IntRange(0, len(n.Data)-1)
			if len(n.Data) > 8 {
				// long (index) files: pick among representative positions
				pos := []int{3, 67, 153, 174, 0, 2, 40, 66, 68, 100, 131, 132, 152, 154, 173}
				j = pos[rt.IntRange(0, rt.Param("DPOS", len(pos))-1)]
			}
			n.Data[j] = rt.Byte()
		}
	case 3:
		n.Data = append(n.Data, rt.Byte())
	}
}

// vPoolDigest mirrors the executor's digest pool (see DESIGN: SHA-256 is
// modelled as an injective function onto a fixed pool of digests).
func vPoolDigest(k int) []byte {
	out := make([]byte, 32)
	for j := range out {
		out[j] = byte(k*37 + j*11 + 5)
	}
	out[0] = byte(0xd0 + k)
	return out
}

// VerifC05Repair: after arbitrary damage to a stored output, storing the
// same content again makes it readable again.
func VerifC05Repair() {
	fsys := vfs.New()
	fsys.NowSec = 1700000000
	c := vNewCache(fsys)
	d := vData(rt.Param("L", 2))
	id := vIDs[0]
	rt.Assert(c.PutBytes(id, d) == nil, "put-succeeds")
	vDamage(c, fsys)
	vCheckGetBytes(c, id)
	vCheckGetFile(c, fsys, id)
	rt.Assert(c.PutBytes(id, d) == nil, "re-put-succeeds")
	got, ok := vCheckGetBytes(c, id)
	rt.Assert(ok, "re-put-repairs-getbytes")
	if ok {
		rt.Assert(len(got) == len(d), "repaired-length")
		rt.Assert(rt.BytesEq(got, d), "repaired-bytes")
		rt.Reach("repaired")
	}
	fb, ok2 := vCheckGetFile(c, fsys, id)
	rt.Assert(ok2, "re-put-repairs-getfile")
	if ok2 {
		rt.Assert(len(fb) == len(d), "repaired-file-length")
		rt.Assert(rt.BytesEq(fb, d), "repaired-file-bytes")
	}
}

// vValidEntry renders a well-formed index entry.
func vValidEntry(id ActionID, out []byte, size int) []byte {
	const hexd = "0123456789abcdef"
	b := []byte("v1 ")
	for _, x := range id {
		b = append(b, hexd[x>>4], hexd[x&15])
	}
	b = append(b, ' ')
	for _, x := range out {
		b = append(b, hexd[x>>4], hexd[x&15])
	}
	b = append(b, ' ')
	b = append(b, vPad20(string(rune('0'+size)))...)
	b = append(b, ' ')
	b = append(b, vPad20("1700000000000000000")...)
	b = append(b, '\n')
	return b
}

func vPad20(s string) string {
	for len(s) < 20 {
		s = " " + s
	}
	return s
}

// VerifC05Entry: index-entry contents that differ from a well-formed entry
// in a window of W arbitrary bytes at any position (plus truncation or
// extension of the file), and arbitrary output-file contents: lookups
// never panic; a successful GetBytes returns bytes whose digest is the
// reported OutputID, a successful GetFile a file whose length is the
// reported size; an accepted entry is what the bytes spell for this id.
func VerifC05Entry() {
	fsys := vfs.New()
	fsys.NowSec = 1700000000
	c := vNewCache(fsys)
	id := vIDs[0]
	data := vData(rt.Param("L", 2))
	d0 := rt.Hash(data) // digest of the bytes placed in the output file
	named := d0[:]
	if rt.Bool() {
		named = vPoolDigest(3) // an unrelated digest
		rt.Reach("entry-names-other-digest")
	}
	entry := vValidEntry(id, named, 0)
	rt.Assert(len(entry) == entrySize, "harness-entry-size")
	// the size digit is a free digit (no fork until it is compared)
	sz := rt.Byte()
	rt.Assume(sz >= '0')
	rt.Assume(sz <= '3')
	entry[3+hexSize+1+hexSize+20] = sz
	if rt.Param("LEN", 0) == 0 {
		// a window of W arbitrary bytes at any (stride-aligned) position
		W := rt.Param("W", 3)
		stride := rt.Param("STRIDE", 1)
		w := rt.IntRange(0, (entrySize-1)/stride) * stride
		for k := 0; k < W && w+k < len(entry); k++ {
			entry[w+k] = rt.Byte()
		}
	} else {
		// truncated or extended file
		switch rt.IntRange(0, 2) {
		case 0:
			entry = entry[:rt.IntRange(0, entrySize-1)]
			rt.Reach("truncated")
		case 1:
			entry = append(entry, rt.Byte())
			rt.Reach("extended")
		case 2:
			entry = append(entry, rt.Byte(), rt.Byte())
		}
	}
	fsys.PutFile(vIndexPath(c, id), entry, 1700000000)
	e, err := c.Get(id)
	// output file state (not read by Get): chosen after the entry parse so
	// that it does not multiply the rejected-entry paths
	if err == nil && rt.Bool() {
		fsys.PutFile(vDataPath(c, OutputID(d0)), data, 1700000000)
		rt.Reach("data-file-present")
	}
	if err == nil {
		rt.Reach("entry-accepted")
		rt.Assert(len(entry) == entrySize, "accepted-entry-has-exact-size")
		rt.Assert(e.Size >= 0, "accepted-size-nonnegative")
	} else {
		rt.Assert(vIsNotFound(err), "get-error-is-not-found")
		rt.Reach("entry-rejected")
	}
	got, ok := vCheckGetBytes(c, id)
	if ok {
		rt.Reach("getbytes-accepted")
		// only the bytes of the output file (or, for a missing file, the
		// empty string if the entry names its digest) can be returned
		rt.Assert(len(got) == len(data) || len(got) == 0, "getbytes-returns-file-bytes-len")
		if len(got) == len(data) {
			rt.Assert(rt.BytesEq(got, data), "getbytes-returns-file-bytes")
		}
	}
	if _, ok := vCheckGetFile(c, fsys, id); ok {
		rt.Reach("getfile-accepted")
	}
}

// VerifC05EntryOut: the OutputID field is arbitrary too: Get accepts it
// only as 64 hex digits and reports exactly the decoded bytes.
func VerifC05EntryOut() {
	fsys := vfs.New()
	fsys.NowSec = 1700000000
	c := vNewCache(fsys)
	id := vIDs[1]
	const hexd = "0123456789abcdef"
	var b []byte
	b = append(b, "v1 "...)
	for _, x := range id {
		b = append(b, hexd[x>>4], hexd[x&15])
	}
	b = append(b, ' ')
	field := rt.Bytes(hexSize)
	b = append(b, field...)
	b = append(b, ' ')
	b = append(b, vPad20("7")...)
	b = append(b, ' ')
	b = append(b, vPad20("9")...)
	b = append(b, '\n')
	fsys.PutFile(vIndexPath(c, id), b, 1700000000)
	e, err := c.Get(id)
	if err != nil {
		rt.Assert(vIsNotFound(err), "get-error-is-not-found")
		rt.Reach("field-rejected")
		return
	}
	rt.Reach("field-accepted")
	rt.Assert(e.Size == 7, "size-field-parsed")
	ok := true
	for i := 0; i < HashSize; i++ {
		hi, lo := vHexVal(field[2*i]), vHexVal(field[2*i+1])
		ok = rt.And(ok, rt.And(hi < 16, lo < 16))
		ok = rt.And(ok, e.OutputID[i] == hi<<4|lo)
	}
	rt.Assert(ok, "outputid-is-decoded-field")
}

func vHexVal(c byte) byte {
	v := rt.IteByte(rt.And(c >= '0', c <= '9'), c-'0', 255)
	v = rt.IteByte(rt.And(c >= 'a', c <= 'f'), c-'a'+10, v)
	v = rt.IteByte(rt.And(c >= 'A', c <= 'F'), c-'A'+10, v)
	return v
}

// VerifC05EntryLen: truncated / extended index files (registered with LEN=1).
func VerifC05EntryLen() { VerifC05Entry() }

// VerifC05HistoryDamage: histories with a damage step (registered separately
// so that damage-free histories can be explored deeper).
func VerifC05HistoryDamage() { VerifC05History() }
