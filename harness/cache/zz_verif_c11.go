//go:build verif

package cache

import (
	"strings"

	rt "github.com/rogpeppe/go-internal/internal/verifrt"
	"github.com/rogpeppe/go-internal/internal/verifrt/vfs"
)

type vSnap struct {
	fs   *vfs.FS
	path string // the path whose mutation produced this snapshot
}

// vRecord runs f (a writer) on fsys and records a snapshot after every
// mutation, torn writes included.
func vRecord(fsys *vfs.FS, f func()) []vSnap {
	snaps := []vSnap{{fs: fsys.Clone()}}
	fsys.Torn = true
	fsys.OnMutate = func(g *vfs.FS, op, path string) {
		if strings.HasPrefix(op, "chtimes") {
			return // modification times are not observed by lookups
		}
		snaps = append(snaps, vSnap{fs: g.Clone(), path: path})
	}
	f()
	fsys.OnMutate = nil
	fsys.Torn = false
	return snaps
}

// vObserve runs f (a reader) so that its i-th file operation sees snapshot
// k_i with k_1 <= k_2 <= ... chosen by the solver. For an operation on
// path P only the snapshots at which P changed are candidates (moving to a
// point between two changes of P shows the same P and only constrains
// later operations more).
func vObserve(snaps []vSnap, f func(view *vfs.FS)) (afterWriter bool) {
	view := snaps[0].fs.Clone()
	cur := 0
	started, after := false, false
	last := len(snaps) - 1
	view.BeforeOp = func(g *vfs.FS, op, path string) {
		if !started {
			started = true
			// the lookup may also start after the writer is done
			if rt.Bool() {
				cur = last
				g.Nodes = snaps[last].fs.Clone().Nodes
				g.Rebind()
				after = true
				return
			}
		}
		cands := []int{cur}
		for j := cur + 1; j < len(snaps); j++ {
			if snaps[j].path == path {
				cands = append(cands, j)
			}
		}
		k := cands[rt.IntRange(0, len(cands)-1)]
		if k != cur {
			cur = k
			g.Nodes = snaps[k].fs.Clone().Nodes
			g.Rebind()
		}
	}
	vfs.Cur = view
	f(view)
	return after
}

// VerifC11OneWriterOneReader: a reader's lookup interleaved in every way
// with one writer's Put (every write possibly torn), from an empty cache
// or over an earlier complete Put of equal or different content.
func VerifC11OneWriterOneReader() {
	fsys := vfs.New()
	fsys.NowSec = 1700000000
	c := vNewCache(fsys)
	L := rt.Param("L", 2)
	id := vIDs[0]
	d1 := vData(L)
	var d0 []byte
	have0 := false
	same := false
	switch rt.IntRange(0, 2) {
	case 0:
		rt.Reach("fresh")
	case 1:
		d0 = append([]byte{}, d1...)
		have0, same = true, true
		rt.Reach("restore-identical")
	case 2:
		d0 = vData(L)
		have0 = true
		rt.Reach("overwrite")
	}
	if have0 {
		rt.Assert(c.PutBytes(id, d0) == nil, "setup-put")
		fsys.NowSec += 10 // the second Put carries a later timestamp
	}
	snaps := vRecord(fsys, func() {
		rt.Assert(c.PutBytes(id, d1) == nil, "writer-put-succeeds")
	})
	if len(snaps) > 3 {
		rt.Reach("several-snapshots")
	}
	useFile := rt.Bool()
	var got []byte
	ok := false
	atEnd := vObserve(snaps, func(view *vfs.FS) {
		rc := &Cache{dir: vDir, now: vfs.Now}
		if useFile {
			file, entry, err := rc.GetFile(id)
			if err != nil {
				rt.Assert(vIsNotFound(err), "getfile-error-is-not-found")
				return
			}
			ok = true
			// the named file, as it is when the lookup returns, is
			// complete: reported size, and content with the reported digest
			n := view.File(file)
			rt.Assert(n != nil, "getfile-names-existing-file")
			if n != nil {
				got = n.Data
				rt.Assert(int64(len(n.Data)) == entry.Size, "getfile-size-under-concurrency")
				rt.Assert(rt.Hash(n.Data) == [32]byte(entry.OutputID), "getfile-content-complete-under-concurrency")
				rt.Assert(vOneOf(n.Data, d0, have0, d1), "getfile-holds-some-puts-bytes")
			}
			rt.Reach("getfile-hit")
		} else {
			got, ok = vCheckGetBytes(rc, id)
		}
	})
	vfs.Cur = fsys
	if ok && !useFile {
		rt.Reach("lookup-hit")
		rt.Assert(vOneOf(got, d0, have0, d1), "lookup-returns-some-puts-bytes")
	}
	if !ok {
		rt.Reach("lookup-miss")
		rt.Assert(!same, "restoring-identical-content-never-misses")
		rt.Assert(!atEnd, "stored-id-readable-once-writer-finished")
	}
	if atEnd && ok && !useFile {
		rt.Assert(len(got) == len(d1), "final-lookup-returns-latest-length")
		if len(got) == len(d1) {
			rt.Assert(rt.BytesEq(got, d1), "final-lookup-returns-latest")
		}
	}
}
