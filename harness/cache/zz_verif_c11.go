//go:build verif

package cache

import (
	"strings"

	rt "github.com/rogpeppe/go-internal/internal/verifrt"
	"github.com/rogpeppe/go-internal/internal/verifrt/vfs"
)

type vSnap struct {
	fs   *vfs.FS
	path string // the path whose mutation produced this snapshot
}

// vRecord runs f (a writer) on fsys and records a snapshot after every
// mutation, torn writes included.
func vRecord(fsys *vfs.FS, f func()) []vSnap {
	return vRecordTorn(fsys, f, true)
}

func vRecordTorn(fsys *vfs.FS, f func(), torn bool) []vSnap {
	snaps := []vSnap{{fs: fsys.Clone()}}
	fsys.Torn = torn
	fsys.OnMutate = func(g *vfs.FS, op, path string) {
		if strings.HasPrefix(op, "chtimes") {
			return // modification times are not observed by lookups
		}
		snaps = append(snaps, vSnap{fs: g.Clone(), path: path})
	}
	f()
	fsys.OnMutate = nil
	fsys.Torn = false
	return snaps
}

// vObserve runs f (a reader) so that its i-th file operation sees snapshot
// k_i with k_1 <= k_2 <= ... chosen by the solver. For an operation on
// path P only the snapshots at which P changed are candidates (moving to a
// point between two changes of P shows the same P and only constrains
// later operations more).
func vObserve(snaps []vSnap, f func(view *vfs.FS)) (afterWriter bool) {
	view := snaps[0].fs.Clone()
	cur := 0
	started, after := false, false
	last := len(snaps) - 1
	view.BeforeOp = func(g *vfs.FS, op, path string) {
		if !started {
			started = true
			// the lookup may also start after the writer is done
			if rt.Bool() {
				cur = last
				g.Nodes = snaps[last].fs.Clone().Nodes
				g.Rebind()
				after = true
				return
			}
		}
		cands := []int{cur}
		for j := cur + 1; j < len(snaps); j++ {
			if snaps[j].path == path {
				cands = append(cands, j)
			}
		}
		k := cands[rt.IntRange(0, len(cands)-1)]
		if k != cur {
			cur = k
			g.Nodes = snaps[k].fs.Clone().Nodes
			g.Rebind()
		}
	}
	vfs.Cur = view
	f(view)
	return after
}

// VerifC11OneWriterOneReader: a reader's lookup interleaved in every way
// with one writer's Put (every write possibly torn), from an empty cache
// or over an earlier complete Put of equal or different content.
func VerifC11OneWriterOneReader() {
	fsys := vfs.New()
	fsys.NowSec = 1700000000
	c := vNewCache(fsys)
	L := rt.Param("L", 2)
	id := vIDs[0]
	d1 := vData(L)
	var d0 []byte
	have0 := false
	same := false
	trimmed := false
	switch rt.IntRange(0, 3) {
	case 3:
		// the id was stored before, then its output file was trimmed away while the index
		// entry survived (Trim judges each file by its own age); the writer stores it again
		d0 = append([]byte{}, d1...)
		have0, trimmed = true, true
		rt.Reach("restore-after-trimmed-output")
	case 0:
		rt.Reach("fresh")
	case 1:
		d0 = append([]byte{}, d1...)
		have0, same = true, true
		rt.Reach("restore-identical")
	case 2:
		d0 = vData(L)
		have0 = true
		rt.Reach("overwrite")
	}
	if have0 {
		rt.Assert(c.PutBytes(id, d0) == nil, "setup-put")
		fsys.NowSec += 10 // the second Put carries a later timestamp
	}
	if trimmed {
		file, _, err := c.GetFile(id)
		rt.Assert(err == nil, "setup-getfile")
		if err != nil {
			return
		}
		delete(fsys.Nodes, file)
	}
	snaps := vRecord(fsys, func() {
		rt.Assert(c.PutBytes(id, d1) == nil, "writer-put-succeeds")
	})
	if len(snaps) > 3 {
		rt.Reach("several-snapshots")
	}
	useFile := rt.Bool()
	var got []byte
	ok := false
	atEnd := vObserve(snaps, func(view *vfs.FS) {
		rc := &Cache{dir: vDir, now: vfs.Now}
		// goroutines of one process may share a *Cache: a lookup must not leave anything in it
		// (the cache directory is the only state the operations share)
		before := *rc
		defer func() {
			rt.Assert(rt.SameState(before, *rc), "lookup-leaves-the-cache-object-unchanged")
		}()
		if useFile {
			file, entry, err := rc.GetFile(id)
			if err != nil {
				rt.Assert(vIsNotFound(err), "getfile-error-is-not-found")
				return
			}
			ok = true
			// the named file, as it is when the lookup returns, is
			// complete: reported size, and content with the reported digest
			n := view.File(file)
			rt.Assert(n != nil, "getfile-names-existing-file")
			if n != nil {
				got = n.Data
				rt.Assert(int64(len(n.Data)) == entry.Size, "getfile-size-under-concurrency")
				rt.Assert(rt.Hash(n.Data) == [32]byte(entry.OutputID), "getfile-content-complete-under-concurrency")
				rt.Assert(vOneOf(n.Data, d0, have0, d1), "getfile-holds-some-puts-bytes")
			}
			rt.Reach("getfile-hit")
		} else {
			got, ok = vCheckGetBytes(rc, id)
		}
	})
	vfs.Cur = fsys
	if ok && !useFile {
		rt.Reach("lookup-hit")
		rt.Assert(vOneOf(got, d0, have0, d1), "lookup-returns-some-puts-bytes")
	}
	if !ok {
		rt.Reach("lookup-miss")
		rt.Assert(!same, "restoring-identical-content-never-misses")
		rt.Assert(!atEnd, "stored-id-readable-once-writer-finished")
	}
	if atEnd && ok && !useFile {
		rt.Assert(len(got) == len(d1), "final-lookup-returns-latest-length")
		if len(got) == len(d1) {
			rt.Assert(rt.BytesEq(got, d1), "final-lookup-returns-latest")
		}
	}
}

// VerifC11TwoWriters: writer A's Put is interrupted before a solver-chosen
// file operation by writer B, which performs a solver-chosen number of the
// file operations of its own Put of the same id (then stands still: B may
// be slow or dead); A then finishes. Every mutation is a snapshot; a reader
// then looks the id up with solver-chosen observation points. This covers
// the interleavings A[0..i] B[0..j] A[i..] with a reader anywhere.
func VerifC11TwoWriters() {
	fsys := vfs.New()
	fsys.NowSec = 1700000000
	c := vNewCache(fsys)
	L := rt.Param("L", 1)
	id := vIDs[0]
	dA := vData(L)
	var dB []byte
	identical := rt.Bool()
	if identical {
		dB = append([]byte{}, dA...)
		rt.Reach("identical-content")
	} else {
		dB = vData(L)
		rt.Reach("different-content")
	}
	// number of operations of an undisturbed Put (A and B have the same shape)
	nA := vCountOps(fsys, dA)
	i := rt.IntRange(0, nA-1) // B runs before A's i-th operation
	j := rt.IntRange(1, nA)   // B performs j operations, then stands still
	inB := false
	started := false
	opsA := 0
	var putErrA error
	// torn writes only matter to a reader that overlaps the writers
	snaps := vRecordTorn(fsys, func() {
		fsys.BeforeOp = func(g *vfs.FS, op, path string) {
			if inB || started {
				return
			}
			if opsA == i {
				started = true
				inB = true
				g.CrashAt = g.Ops + j
				cb := &Cache{dir: vDir, now: vfs.Now}
				cb.PutBytes(id, dB) // result irrelevant: B is cut off after j operations
				g.CrashAt = -1
				g.Failed = false
				inB = false
				rt.Reach("writer-b-ran")
			}
			opsA++
		}
		putErrA = c.PutBytes(id, dA)
		fsys.BeforeOp = nil
	}, rt.Param("OBS", 1) != 0 && rt.Param("TORN", 1) != 0)
	fsys.CrashAt = -1
	if putErrA != nil {
		// A may legitimately fail when B's different content gets in its way
		rt.Assert(!identical, "identical-concurrent-put-does-not-fail")
		rt.Reach("writer-a-failed")
	}
	useFile := rt.Bool()
	var got []byte
	ok := false
	if rt.Param("OBS", 1) == 0 {
		// the reader only runs once A has returned (B still standing still)
		snaps = snaps[len(snaps)-1:]
	}
	after := vObserve(snaps, func(view *vfs.FS) {
		rc := &Cache{dir: vDir, now: vfs.Now}
		if useFile {
			file, entry, err := rc.GetFile(id)
			if err != nil {
				rt.Assert(vIsNotFound(err), "getfile-error-is-not-found")
				return
			}
			ok = true
			n := view.File(file)
			rt.Assert(n != nil, "getfile-names-existing-file")
			if n != nil {
				got = n.Data
				rt.Assert(int64(len(n.Data)) == entry.Size, "getfile-size-under-concurrency")
				rt.Assert(rt.Hash(n.Data) == [32]byte(entry.OutputID), "getfile-content-complete-under-concurrency")
			}
			rt.Reach("getfile-hit")
		} else {
			got, ok = vCheckGetBytes(rc, id)
		}
	})
	if len(snaps) == 1 {
		after = true
	}
	vfs.Cur = fsys
	if ok {
		rt.Reach("lookup-hit")
		rt.Assert(vOneOf(got, dA, true, dB), "lookup-returns-some-puts-bytes")
	} else {
		rt.Reach("lookup-miss")
		if after && putErrA == nil && identical {
			// A's Put of this id has completed and B only re-stores the same
			// content: the id must be readable
			rt.Fail("restoring-identical-content-made-stored-id-unreadable")
		}
	}
}

// VerifC11TwoWritersObserved: the two-writer scenario with a reader that
// overlaps the writers (registered for the thorough tier).
func VerifC11TwoWritersObserved() { VerifC11TwoWriters() }
