//go:build verif

package cache

import (
	"errors"
	"io"

	rt "github.com/rogpeppe/go-internal/internal/verifrt"
	"github.com/rogpeppe/go-internal/internal/verifrt/vfs"
)

// vReader is an io.ReadSeeker that can misbehave: fail at an offset, end
// early, or yield different bytes on the second pass.
type vReader struct {
	first, second []byte
	pass          int
	off           int
	failAt        int // read offset at which Read fails (-1: never)
	failPass      int
	seekFails     int // pass number whose Seek fails (-1: never)
}

var errVReader = errors.New("source reader failed")

func (r *vReader) cur() []byte {
	if r.pass >= 2 {
		return r.second
	}
	return r.first
}

func (r *vReader) Read(p []byte) (int, error) {
	d := r.cur()
	if r.failAt >= 0 && r.pass == r.failPass && r.off >= r.failAt {
		return 0, errVReader
	}
	if r.off >= len(d) {
		return 0, io.EOF
	}
	n := len(d) - r.off
	if n > len(p) {
		n = len(p)
	}
	if r.failAt >= 0 && r.pass == r.failPass && r.off+n > r.failAt {
		n = r.failAt - r.off
	}
	copy(p, d[r.off:r.off+n])
	r.off += n
	return n, nil
}

func (r *vReader) Seek(offset int64, whence int) (int64, error) {
	r.pass++
	if r.pass == r.seekFails {
		return 0, errVReader
	}
	r.off = int(offset)
	return offset, nil
}

// vStart prepares the starting state: an unrelated complete entry for
// id1, and for id0 nothing, or an older entry with equal or different content.
func vStart(c *Cache, fsys *vfs.FS, newData []byte, L int) (old []byte, haveOld bool, other []byte) {
	other = vData(L)
	rt.Assert(c.PutBytes(vIDs[1], other) == nil, "setup-put-other")
	switch rt.IntRange(0, 3) {
	case 0:
	case 3:
		// the same content was stored earlier and its output file has since
		// been trimmed while the index entry stayed alive (Get refreshes
		// only the index entry): a state ordinary use produces
		old = append([]byte{}, newData...)
		haveOld = true
		// (the unrelated entry must not share that output file)
		if len(other) == len(newData) {
			rt.Assume(rt.Not(rt.BytesEq(other, newData)))
		}
		rt.Assert(c.PutBytes(vIDs[0], old) == nil, "setup-put-old")
		delete(fsys.Nodes, vDataPath(c, OutputID(rt.Hash(old))))
		rt.Reach("output-trimmed-index-kept")
		return
	case 1:
		old = append([]byte{}, newData...)
		haveOld = true
		rt.Reach("overwrite-same-content")
	case 2:
		old = vData(L)
		haveOld = true
		rt.Reach("overwrite-different-content")
	}
	if haveOld {
		rt.Assert(c.PutBytes(vIDs[0], old) == nil, "setup-put-old")
	}
	return
}

func vOneOf(got, a []byte, haveA bool, b []byte) bool {
	res := false
	if haveA && len(got) == len(a) {
		res = rt.Or(res, rt.BytesEq(got, a))
	}
	if len(got) == len(b) {
		res = rt.Or(res, rt.BytesEq(got, b))
	}
	return res
}

// vAfter checks the cache as a fresh process would see it.
func vAfter(fsys *vfs.FS, old []byte, haveOld bool, newData, other []byte, undamaged bool) {
	fsys.FailAt, fsys.CrashAt, fsys.Short, fsys.ShortOnFail = -1, -1, false, false
	c := &Cache{dir: vDir, now: vfs.Now}
	if got, ok := vCheckGetBytes(c, vIDs[0]); ok {
		rt.Reach("after-getbytes-hit")
		rt.Assert(vOneOf(got, old, haveOld, newData), "bytes-are-some-puts-bytes")
	} else {
		rt.Reach("after-getbytes-miss")
	}
	if undamaged {
		file, entry, err := c.GetFile(vIDs[0])
		if err == nil {
			n := fsys.File(file)
			rt.Assert(n != nil, "getfile-names-existing-file")
			if n != nil {
				rt.Assert(int64(len(n.Data)) == entry.Size, "getfile-size")
				rt.Assert(rt.Hash(n.Data) == [32]byte(entry.OutputID), "getfile-content-matches-outputid")
				rt.Reach("after-getfile-hit")
			}
		} else {
			rt.Assert(vIsNotFound(err), "getfile-error-is-not-found")
		}
	}
	// the unrelated entry is untouched
	got, ok := vCheckGetBytes(c, vIDs[1])
	rt.Assert(ok, "unrelated-entry-still-readable")
	if ok {
		rt.Assert(len(got) == len(other), "unrelated-entry-length")
		rt.Assert(rt.BytesEq(got, other), "unrelated-entry-bytes")
	}
}

// vCountOps runs the Put on a copy of the state to learn how many file
// operations it performs.
func vCountOps(fsys *vfs.FS, data []byte) int {
	clone := fsys.Clone()
	vfs.Cur = clone
	c := &Cache{dir: vDir, now: vfs.Now}
	c.PutBytes(vIDs[0], data)
	n := clone.Ops
	vfs.Cur = fsys
	return n
}

// VerifC12FileFault: the Put stops (crash) after any number of file
// operations, or any single file operation fails (a failing write may have
// written any prefix).
func VerifC12FileFault() {
	fsys := vfs.New()
	fsys.NowSec = 1700000000
	c := vNewCache(fsys)
	L := rt.Param("L", 2)
	newData := vData(L)
	old, haveOld, other := vStart(c, fsys, newData, L)
	nops := vCountOps(fsys, newData)
	k := rt.IntRange(0, nops)
	crash := rt.Bool()
	if crash {
		fsys.CrashAt = fsys.Ops + k
		rt.Reach("crash")
	} else {
		fsys.FailAt = fsys.Ops + k
		fsys.ShortOnFail = true
		rt.Reach("fault")
	}
	err := c.PutBytes(vIDs[0], newData)
	if !crash && fsys.Failed {
		rt.Reach("fault-hit")
		if err != nil {
			rt.Reach("put-reported-error")
		}
	}
	if !crash && !fsys.Failed {
		rt.Assert(err == nil, "put-succeeds-when-no-fault-hit")
	}
	vAfter(fsys, old, haveOld, newData, other, true)
	if err == nil && !crash {
		// a Put that reported success is readable
		c2 := &Cache{dir: vDir, now: vfs.Now}
		got, ok := vCheckGetBytes(c2, vIDs[0])
		if !fsys.Failed {
			rt.Assert(ok, "successful-put-readable")
			if ok {
				rt.Assert(len(got) == len(newData), "successful-put-length")
				rt.Assert(rt.BytesEq(got, newData), "successful-put-bytes")
			}
		}
	}
}

// VerifC12Reader: the source reader fails at any offset in either pass,
// fails to seek, ends early or yields different bytes on the second pass.
func VerifC12Reader() {
	fsys := vfs.New()
	fsys.NowSec = 1700000000
	c := vNewCache(fsys)
	L := rt.Param("L", 2)
	newData := vData(L)
	old, haveOld, other := vStart(c, fsys, newData, L)
	r := &vReader{first: newData, second: newData, failAt: -1, seekFails: -1}
	switch rt.IntRange(0, 3) {
	case 0:
		r.failAt = rt.IntRange(0, len(newData))
		r.failPass = rt.IntRange(1, 2)
		rt.Reach("reader-fails")
	case 1:
		r.seekFails = rt.IntRange(1, 2)
		rt.Reach("seek-fails")
	case 2:
		if len(newData) > 0 {
			r.second = newData[:rt.IntRange(0, len(newData)-1)]
			rt.Reach("second-pass-shorter")
		}
	case 3:
		r.second = rt.Bytes(len(newData))
		rt.Reach("second-pass-differs")
	}
	// the process may in addition stop after any number of file operations
	// (the source misbehaves and execution halts before the clean-up)
	if rt.Param("HALT", 1) == 1 && rt.Bool() {
		fsys.CrashAt = fsys.Ops + rt.IntRange(0, vCountOps(fsys, newData))
		rt.Reach("reader-fault-and-halt")
	}
	_, _, err := c.Put(vIDs[0], r)
	if err != nil {
		rt.Reach("put-reported-error")
	}
	// what a second pass may legitimately have stored: the first-pass bytes
	vAfter(fsys, old, haveOld, newData, other, true)
}

// VerifC12PreDamaged: the output file already exists with wrong contents
// of the right or wrong size; only the checksum-verified lookups are
// asserted afterwards, plus: a Put that reports success is readable.
func VerifC12PreDamaged() {
	fsys := vfs.New()
	fsys.NowSec = 1700000000
	c := vNewCache(fsys)
	L := rt.Param("L", 2)
	newData := vData(L)
	other := vData(L)
	rt.Assert(c.PutBytes(vIDs[1], other) == nil, "setup-put-other")
	d := rt.Hash(newData)
	junk := rt.Bytes(rt.IntRange(0, L+1))
	fsys.PutFile(vDataPath(c, OutputID(d)), junk, 1700000000)
	nops := vCountOps(fsys, newData)
	k := rt.IntRange(0, nops+1)
	if k <= nops {
		fsys.CrashAt = fsys.Ops + k
	}
	err := c.PutBytes(vIDs[0], newData)
	crashed := k <= nops
	if !crashed {
		rt.Assert(err == nil, "put-over-predamaged-succeeds")
		rt.Reach("repaired-predamaged")
	}
	fsys.FailAt, fsys.CrashAt = -1, -1
	c2 := &Cache{dir: vDir, now: vfs.Now}
	got, ok := vCheckGetBytes(c2, vIDs[0])
	if ok {
		rt.Assert(len(got) == len(newData), "predamaged-bytes-length")
		rt.Assert(rt.BytesEq(got, newData), "predamaged-bytes")
	}
	if !crashed {
		rt.Assert(ok, "put-over-predamaged-readable")
	}
	got1, ok1 := vCheckGetBytes(c2, vIDs[1])
	// the unrelated entry may share the (pre-damaged) output file only if
	// its content equals newData; otherwise it must be intact
	if ok1 {
		rt.Assert(len(got1) == len(other), "unrelated-length")
		rt.Assert(rt.BytesEq(got1, other), "unrelated-bytes")
	}
}
