//go:build verif

package cache

import (
	"strconv"
	"strings"
	"time"

	rt "github.com/rogpeppe/go-internal/internal/verifrt"
	"github.com/rogpeppe/go-internal/internal/verifrt/vfs"
)

// vNow is the instant at which Trim runs; the harness picks it from vEpochs
// (before and after 2^31 and 2^32 seconds), all ages are relative to it.
var vNow = int64(1700000000)

var vEpochs = []int64{1700000000, 2200000000, 4400000000}

const (
	vDay   = int64(86400)
	vHour  = int64(3600)
	vRange = 20 * vDay
)

// vAge returns a symbolic age in seconds within [-vRange, vRange].
func vAge() int64 {
	a := rt.Int64()
	rt.Assume(a >= -vRange)
	rt.Assume(a <= vRange)
	return a
}

type vEntryFile struct {
	path   string
	name   string
	mtime  int64
	isEnt  bool // has an entry suffix (-a / -d)
	looked bool // refreshed by a lookup
	lookT  int64
}

// VerifC13Trim: one cache subdirectory populated from a name template with
// symbolic modification times, any last-trim record, optional preceding
// lookups; Trim runs at a fixed "now" (all ages are relative to it).
func VerifC13Trim() {
	vNow = vEpochs[rt.IntRange(0, rt.Param("EPOCHS", 1))]
	if vNow >= 1<<31 {
		rt.Reach("clock-past-2038")
	}
	fsys := vfs.New()
	fsys.NowSec = vNow
	c := vNewCache(fsys)
	cur := vNow
	c.now = func() time.Time { return time.Unix(cur, 0) }
	// the subdirectory: first, last or one in the middle of the 256
	pfx := []string{"a1", "ff", "00"}[rt.IntRange(0, rt.Param("SUBS", 2))]
	sub := vDir + "/" + pfx
	names := []string{
		pfx + strings.Repeat("0", 62) + "-a",
		pfx + strings.Repeat("1", 62) + "-d",
		"trim.txt", "README", "x-b", "-a", "fuzz", pfx + "-ab", "a", "d",
	}
	n := rt.IntRange(0, rt.Param("E", 3))
	var files []*vEntryFile
	used := map[int]bool{}
	for i := 0; i < n; i++ {
		k := rt.IntRange(0, len(names)-1)
		rt.Assume(!used[k])
		used[k] = true
		f := &vEntryFile{name: names[k], path: sub + "/" + names[k]}
		f.isEnt = strings.HasSuffix(f.name, "-a") || strings.HasSuffix(f.name, "-d")
		f.mtime = vNow - vAge()
		fsys.PutFile(f.path, []byte("x"), f.mtime)
		files = append(files, f)
	}
	// foreign files at the top level, and a foreign directory holding old files with entry-like names
	fsys.PutFile(vDir+"/README", []byte("readme"), vNow-100*vDay)
	fsys.PutFile(vDir+"/fuzz/corpus-d", []byte("seed"), vNow-100*vDay)
	fsys.PutFile(vDir+"/fuzz/seed-a", []byte("seed"), vNow-100*vDay)
	// last-trim record
	trimPath := vDir + "/trim.txt"
	trimKind := rt.IntRange(0, rt.Param("TK", 3))
	var last int64
	haveLast := false
	switch trimKind {
	case 0: // missing
		rt.Reach("trim-record-missing")
	case 1: // well-formed decimal digits (symbolic), optional surrounding blanks
		// 10 decimal digits: a concrete 4-digit head (both sides of "now")
		// and 6 symbolic digits: +-11 days around now at second resolution
		head := strconv.FormatInt(vNow/1000000-1, 10)
		if rt.Bool() {
			head = strconv.FormatInt(vNow/1000000, 10)
		}
		digits := append([]byte(head), rt.Bytes(6)...)
		for _, d := range digits[4:] {
			rt.Assume(d >= '0')
			rt.Assume(d <= '9')
		}
		content := string(digits)
		if rt.Bool() {
			content = " " + content + "\n"
		}
		v, err := strconv.ParseInt(string(digits), 10, 64)
		rt.Assert(err == nil, "harness-digits-parse")
		last, haveLast = v, true
		// keep ages in range (the model's stated bound)
		rt.Assume(last >= vNow-vRange)
		rt.Assume(last <= vNow+vRange)
		fsys.PutFile(trimPath, []byte(content), vNow-1)
		rt.Reach("trim-record-digits")
	case 2: // corrupt
		corrupt := []string{"", "x", "12x", "-", "99999999999999999999", " \n"}
		fsys.PutFile(trimPath, []byte(corrupt[rt.IntRange(0, len(corrupt)-1)]), vNow-1)
		rt.Reach("trim-record-corrupt")
	case 3: // unreadable
		fsys.PutFile(trimPath, []byte("1"), vNow-1)
		fsys.FailAt = -2 // set below, once the operation index is known
		rt.Reach("trim-record-unreadable")
	}
	// preceding lookups refresh entries (real used())
	nl := rt.IntRange(0, rt.Param("LK", 1))
	for i := 0; i < nl && len(files) > 0; i++ {
		f := files[rt.IntRange(0, len(files)-1)]
		if !f.isEnt || f.looked {
			continue
		}
		cur = vNow - vAgeNonNeg()
		c.used(f.path)
		f.looked, f.lookT = true, cur
		rt.Reach("lookup-before-trim")
	}
	cur = vNow
	if trimKind == 3 {
		fsys.FailAt = fsys.Ops // the first operation of Trim: opening trim.txt
	}
	before := len(fsys.Mutated)
	err := c.Trim()
	if trimKind == 3 {
		fsys.FailAt = -1
	}
	rt.Assert(err == nil, "trim-returns-no-error")
	mutated := len(fsys.Mutated) > before

	recent := haveLast && last <= vNow && vNow-last < vDay
	old := !haveLast || vNow-last >= vDay
	if haveLast && last > vNow {
		old = false // a record in the future: either behaviour is tolerated
	}
	if recent {
		rt.Reach("not-due")
		rt.Assert(!mutated, "no-effect-when-trim-not-due")
	}
	for _, f := range files {
		exists := fsys.Exists(f.path)
		age := vNow - f.mtime
		if !f.isEnt {
			rt.Assert(exists, "non-entry-file-never-removed")
		}
		if age <= 5*vDay {
			rt.Assert(exists, "entry-used-within-five-days-kept")
		}
		if f.looked && vNow-f.lookT <= 5*vDay {
			rt.Assert(exists, "looked-up-entry-survives")
		}
		if old && f.isEnt && !f.looked && age > 5*vDay+vHour {
			rt.Assert(!exists, "stale-entry-removed-when-due")
			rt.Reach("stale-removed")
		}
	}
	rt.Assert(fsys.Exists(vDir+"/README"), "foreign-file-kept")
	rt.Assert(fsys.Exists(vDir+"/fuzz/corpus-d") && fsys.Exists(vDir+"/fuzz/seed-a"), "foreign-directory-untouched")
	if old {
		rt.Reach("due")
		n := fsys.File(trimPath)
		rt.Assert(n != nil, "trim-time-recorded")
		if n != nil {
			rt.Assert(string(n.Data) == strconv.FormatInt(vNow, 10), "recorded-trim-time-is-now")
		}
	}
}

func vAgeNonNeg() int64 {
	a := rt.Int64()
	rt.Assume(a >= 0)
	rt.Assume(a <= vRange)
	return a
}

// VerifC13Lookup: a real entry (PutBytes) stored at a symbolic time, looked
// up later through Get, GetBytes or GetFile at a symbolic time, then a due
// Trim: an entry looked up within the last five days is still served by the
// same call afterwards ("looking an entry up refreshes it").
func VerifC13Lookup() {
	vNow = vEpochs[rt.IntRange(0, rt.Param("EPOCHS", 1))]
	fsys := vfs.New()
	fsys.NowSec = vNow
	c := vNewCache(fsys)
	cur := vNow
	c.now = func() time.Time { return time.Unix(cur, 0) }
	id := vIDs[0]
	data := []byte("payload")
	ageStore := vAgeNonNeg()
	ageLook := vAgeNonNeg()
	rt.Assume(ageLook <= ageStore)
	cur = vNow - ageStore
	rt.Assert(c.PutBytes(id, data) == nil, "setup-put")
	// PutBytes stamps the files with the model clock; give them the storage time
	for p, n := range fsys.Nodes {
		if strings.HasPrefix(p, vDir+"/") && !n.Dir {
			n.Mtime = vNow - ageStore
		}
	}
	api := rt.IntRange(0, 2)
	lookup := func() bool {
		switch api {
		case 0:
			_, err := c.Get(id)
			return err == nil
		case 1:
			got, _, err := c.GetBytes(id)
			return err == nil && string(got) == string(data)
		default:
			file, _, err := c.GetFile(id)
			if err != nil {
				return false
			}
			n := fsys.File(file)
			return n != nil && string(n.Data) == string(data)
		}
	}
	cur = vNow - ageLook
	rt.Assert(lookup(), "lookup-before-trim-succeeds")
	cur = vNow
	rt.Assert(c.Trim() == nil, "trim-returns-no-error")
	if ageLook <= 5*vDay {
		rt.Reach("looked-up-within-five-days")
		rt.Assert(lookup(), "entry-looked-up-within-five-days-still-served")
	} else if ageLook > 5*vDay+vHour {
		rt.Reach("stale-since-lookup")
		rt.Assert(!lookup(), "entry-unused-for-longer-is-removed")
	}
}
