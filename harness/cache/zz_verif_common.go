//go:build verif

package cache

import (
	"encoding/hex"

	rt "github.com/rogpeppe/go-internal/internal/verifrt"
	"github.com/rogpeppe/go-internal/internal/verifrt/vfs"
)

var vIDs = []ActionID{
	{0xa1, 1, 2, 3, 4, 5, 6, 7, 8, 9, 10, 11, 12, 13, 14, 15, 16, 17, 18, 19, 20, 21, 22, 23, 24, 25, 26, 27, 28, 29, 30, 31},
	{0xa2, 31, 30, 29, 28, 27, 26, 25, 24, 23, 22, 21, 20, 19, 18, 17, 16, 15, 14, 13, 12, 11, 10, 9, 8, 7, 6, 5, 4, 3, 2, 1},
}

const vDir = "/c"

// vNewCache builds a model file system holding an empty cache directory
// (only the subdirectories the IDs and pool digests in play can use) and
// a Cache value over it, as a fresh process would have after Open.
func vNewCache(fsys *vfs.FS) *Cache {
	fsys.MkdirAllP(vDir)
	for _, id := range vIDs {
		fsys.MkdirAllP(vDir + "/" + hex.EncodeToString(id[:1]))
	}
	for k := 0; k < 8; k++ {
		fsys.MkdirAllP(vDir + "/" + hex.EncodeToString([]byte{byte(0xd0 + k)}))
	}
	return &Cache{dir: vDir, now: vfs.Now}
}

func vIsNotFound(err error) bool {
	_, ok := err.(*entryNotFoundError)
	return ok
}

func vData(max int) []byte {
	return rt.Bytes(rt.IntRange(0, max))
}

func vIndexPath(c *Cache, id ActionID) string { return c.fileName(id, "a") }
func vDataPath(c *Cache, out OutputID) string { return c.fileName(out, "d") }

// vCheckGetBytes performs the lookup and asserts the unconditional gate
// clauses; it returns the bytes and whether the lookup succeeded.
func vCheckGetBytes(c *Cache, id ActionID) ([]byte, bool) {
	data, entry, err := c.GetBytes(id)
	if err != nil {
		rt.Assert(vIsNotFound(err), "getbytes-error-is-not-found")
		return nil, false
	}
	rt.Assert(rt.Hash(data) == [32]byte(entry.OutputID), "getbytes-checksum-matches-outputid")
	return data, true
}

func vCheckGetFile(c *Cache, fsys *vfs.FS, id ActionID) ([]byte, bool) {
	file, entry, err := c.GetFile(id)
	if err != nil {
		rt.Assert(vIsNotFound(err), "getfile-error-is-not-found")
		return nil, false
	}
	n := fsys.File(file)
	rt.Assert(n != nil, "getfile-names-existing-file")
	if n == nil {
		return nil, false
	}
	rt.Assert(int64(len(n.Data)) == entry.Size, "getfile-length-equals-reported-size")
	return n.Data, true
}
