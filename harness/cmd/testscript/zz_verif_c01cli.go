//go:build verif

package main

import (
	"strconv"
	"strings"

	rt "github.com/rogpeppe/go-internal/internal/verifrt"
	"github.com/rogpeppe/go-internal/internal/verifrt/vfs"
	"github.com/rogpeppe/go-internal/testscript"
)

// VerifC01Exit: the standalone command's T implementation reports a failed
// run exactly when some script failed (skip and stop are not failures).
// Two scripts of one or two lines each over {probe, skip, stop, unknown};
// probe outcomes and ContinueOnError are symbolic. The harness mirrors the
// tail of mainerr(): r.Run("", RunT); failedRun iff r.failed.
func VerifC01Exit() {
	fsys := vfs.New()
	fsys.NowSec = 1700000000
	fsys.MkdirAllP("/tmp")
	fsys.Env["PATH"] = "/bin"
	nscripts := rt.IntRange(1, 2)
	var files []string
	expectFail := false
	var ok [4]bool
	for i := range ok {
		ok[i] = rt.Bool()
	}
	probe := 0
	for s := 0; s < nscripts; s++ {
		var sb strings.Builder
		nlines := rt.IntRange(1, 2)
		stopped := false
		for l := 0; l < nlines; l++ {
			switch rt.IntRange(0, 3) {
			case 0:
				sb.WriteString("probe " + strconv.Itoa(probe) + "\n")
				if !stopped && !ok[probe] {
					expectFail = true
					stopped = true
				}
				probe++
			case 1:
				sb.WriteString("skip\n")
				stopped = true
			case 2:
				sb.WriteString("stop\n")
				stopped = true
			case 3:
				sb.WriteString("nosuchcmd\n")
				if !stopped {
					expectFail = true
					stopped = true
				}
			}
		}
		name := "/scripts/s" + strconv.Itoa(s) + ".txt"
		fsys.PutFile(name, []byte(sb.String()), 1)
		files = append(files, name)
	}
	p := testscript.Params{
		Files: files,
		Cmds: map[string]func(ts *testscript.TestScript, neg bool, args []string){
			"probe": func(ts *testscript.TestScript, neg bool, args []string) {
				i, _ := strconv.Atoi(args[0])
				if !ok[i] {
					ts.Fatalf("probe %d failed", i)
				}
			},
		},
	}
	r := &runT{}
	r.Run("", func(t testscript.T) {
		testscript.RunT(t, p)
	})
	failed := r.failed.Load()
	if expectFail {
		rt.Reach("some-script-failed")
	} else {
		rt.Reach("no-script-failed")
	}
	if nscripts == 2 {
		rt.Reach("two-scripts")
	}
	rt.Assert(failed == expectFail, "command-reports-failure-iff-some-script-failed")
}
