//go:build verif

package diff

import (
	rt "github.com/rogpeppe/go-internal/internal/verifrt"
)

// ---- independent unified-diff reader and patch applier (the oracle) ----

type vHunk struct {
	oldStart, oldCount, newStart, newCount int
	body                                   [][]byte // raw body lines, each including its marker byte and trailing LF
}

// vSplit splits text after each LF (the last piece may lack one).
func vSplit(text []byte) [][]byte {
	var out [][]byte
	start := 0
	for i := 0; i < len(text); i++ {
		if text[i] == '\n' {
			out = append(out, text[start:i+1])
			start = i + 1
		}
	}
	if start < len(text) {
		out = append(out, text[start:])
	}
	return out
}

func vAtoi(b []byte) (int, bool) {
	if len(b) == 0 {
		return 0, false
	}
	n := 0
	for _, c := range b {
		if c < '0' || c > '9' {
			return 0, false
		}
		n = n*10 + int(c-'0')
	}
	return n, true
}

// vParseRange parses "a,b".
func vParseRange(b []byte) (int, int, bool) {
	for i := range b {
		if b[i] == ',' {
			x, ok1 := vAtoi(b[:i])
			y, ok2 := vAtoi(b[i+1:])
			return x, y, ok1 && ok2
		}
	}
	return 0, 0, false
}

// vParseHunkHeader parses "@@ -a,b +c,d @@\n".
func vParseHunkHeader(l []byte) (h vHunk, ok bool) {
	if len(l) < 4 || l[0] != '@' || l[1] != '@' || l[2] != ' ' || l[3] != '-' {
		return h, false
	}
	i := 4
	j := i
	for j < len(l) && l[j] != ' ' {
		j++
	}
	var ok1, ok2 bool
	h.oldStart, h.oldCount, ok1 = vParseRange(l[i:j])
	if j+1 >= len(l) || l[j+1] != '+' {
		return h, false
	}
	i = j + 2
	j = i
	for j < len(l) && l[j] != ' ' {
		j++
	}
	h.newStart, h.newCount, ok2 = vParseRange(l[i:j])
	rest := l[j:]
	if len(rest) != 4 || rest[0] != ' ' || rest[1] != '@' || rest[2] != '@' || rest[3] != '\n' {
		return h, false
	}
	return h, ok1 && ok2
}

const vNoNL = "\\ No newline at end of file\n"

func vIsNoNL(l []byte) bool {
	if len(l) != len(vNoNL) {
		return false
	}
	for i := range l {
		if l[i] != vNoNL[i] {
			return false
		}
	}
	return true
}

// vParse reads the three header lines and the hunks. Hunk bodies are
// delimited by their counts, so content that looks like diff syntax is not
// misread.
func vParse(out []byte, oldName, newName string) ([]vHunk, bool) {
	lines := vSplit(out)
	if len(lines) < 3 {
		return nil, false
	}
	if string(lines[0]) != "diff "+oldName+" "+newName+"\n" || string(lines[1]) != "--- "+oldName+"\n" || string(lines[2]) != "+++ "+newName+"\n" {
		return nil, false
	}
	var hunks []vHunk
	i := 3
	for i < len(lines) {
		h, ok := vParseHunkHeader(lines[i])
		if !ok {
			return nil, false
		}
		i++
		co, cn := 0, 0
		for co < h.oldCount || cn < h.newCount {
			if i >= len(lines) {
				return nil, false
			}
			l := lines[i]
			if len(l) == 0 || l[len(l)-1] != '\n' {
				return nil, false
			}
			switch l[0] {
			case ' ':
				co++
				cn++
			case '-':
				co++
			case '+':
				cn++
			default:
				return nil, false
			}
			h.body = append(h.body, l)
			i++
			if i < len(lines) && vIsNoNL(lines[i]) {
				h.body = append(h.body, lines[i])
				i++
			}
		}
		if co != h.oldCount || cn != h.newCount {
			return nil, false
		}
		hunks = append(hunks, h)
	}
	return hunks, len(hunks) > 0
}

// vApply applies hunks to src. With reverse, the roles of -/+ and of the
// old/new ranges are swapped. structural reports format-level validity;
// match accumulates the (symbolic) content comparisons.
func vApply(src []byte, hunks []vHunk, reverse bool) (res []byte, structural bool, match bool) {
	srcLines := vSplit(src)
	match = true
	pos := 0
	outLines := 0
	for _, h := range hunks {
		start, count, dstart, dcount := h.oldStart, h.oldCount, h.newStart, h.newCount
		del, add := byte('-'), byte('+')
		if reverse {
			start, count, dstart, dcount = h.newStart, h.newCount, h.oldStart, h.oldCount
			del, add = '+', '-'
		}
		// GNU convention: with count 0 the start names the line before
		if count > 0 {
			start--
		}
		if start < pos || start > len(srcLines) {
			return nil, false, false
		}
		for ; pos < start; pos++ {
			res = append(res, srcLines[pos]...)
			outLines++
		}
		wantDst := outLines + 1
		if dcount == 0 {
			wantDst = outLines
		}
		if dstart != wantDst {
			return nil, false, false
		}
		for bi := 0; bi < len(h.body); bi++ {
			l := h.body[bi]
			text := l[1:]
			if bi+1 < len(h.body) && vIsNoNL(h.body[bi+1]) {
				text = text[:len(text)-1]
				bi++
				// the marker may only follow the final line of a side
			}
			switch l[0] {
			case ' ', del:
				if pos >= len(srcLines) || len(srcLines[pos]) != len(text) {
					return nil, false, false
				}
				match = rt.And(match, rt.BytesEq(srcLines[pos], text))
				pos++
				if l[0] == ' ' {
					res = append(res, text...)
					outLines++
				}
			case add:
				res = append(res, text...)
				outLines++
			}
		}
	}
	for ; pos < len(srcLines); pos++ {
		res = append(res, srcLines[pos]...)
	}
	return res, true, match
}

// symText builds up to max lines of one symbolic byte each; the last line
// may lack its newline.
func symText(max int) []byte {
	n := rt.IntRange(0, max)
	var t []byte
	for i := 0; i < n; i++ {
		b := rt.Byte()
		rt.Assume(b != '\n')
		t = append(t, b)
		if i < n-1 || rt.Bool() {
			t = append(t, '\n')
		}
	}
	return t
}

func checkDiff(x, y []byte) {
	rt.Observe("old", x)
	rt.Observe("new", y)
	out := Diff("a", x, "b", y)
	same := len(x) == len(y)
	if same {
		same = rt.BytesEq(x, y)
	}
	rt.Assert((out == nil) == same, "nil-iff-identical")
	if out == nil {
		rt.Reach("identical")
		return
	}
	hunks, ok := vParse(out, "a", "b")
	rt.Assert(ok, "well-formed-unified-diff")
	if !ok {
		return
	}
	if len(hunks) >= 2 {
		rt.Reach("multi-hunk")
	}
	rt.Reach("hunks-parsed")
	got, structural, match := vApply(x, hunks, false)
	rt.Assert(structural, "hunks-ordered-and-counted")
	if structural {
		rt.Assert(match, "context-and-deletions-match-old")
		rt.Assert(len(got) == len(y), "apply-length")
		if len(got) == len(y) {
			rt.Assert(rt.BytesEq(got, y), "apply-reproduces-new")
		}
	}
	back, structural2, match2 := vApply(y, hunks, true)
	rt.Assert(structural2, "reverse-hunks-ordered-and-counted")
	if structural2 {
		rt.Assert(match2, "context-and-additions-match-new")
		rt.Assert(len(back) == len(x), "reverse-length")
		if len(back) == len(x) {
			rt.Assert(rt.BytesEq(back, x), "reverse-reproduces-old")
		}
	}
}

// VerifC08Small: all pairs of texts with up to P and Q one-byte lines.
func VerifC08Small() {
	x := symText(rt.Param("P", 3))
	y := symText(rt.Param("Q", 3))
	checkDiff(x, y)
}

// anchors are pairwise distinct concrete lines common to both sides.
var vAnchors = []string{"A\n", "B\n", "C\n", "D\n", "E\n", "F\n", "G\n", "H\n", "I\n", "J\n"}

// symLines: up to max symbolic one-byte lines (all newline-terminated),
// constrained to differ from the anchors' alphabet.
func symLines(max int) []byte {
	n := rt.IntRange(0, max)
	var t []byte
	for i := 0; i < n; i++ {
		b := rt.Byte()
		rt.Assume(b != '\n')
		t = append(t, b, '\n')
	}
	return t
}

// VerifC08Anchored: texts with a run of M common anchor lines in the middle
// and symbolic lines before and after on each side: reaches hunk splitting
// (more than 2*3 common lines), trailing-context trimming and the
// "already handled" skip.
func VerifC08Anchored() {
	m := rt.IntRange(rt.Param("MLO", 6), rt.Param("M", 8))
	s := rt.Param("S", 1)
	var x, y []byte
	x = append(x, symLines(s)...)
	y = append(y, symLines(s)...)
	for i := 0; i < m; i++ {
		x = append(x, vAnchors[i]...)
		y = append(y, vAnchors[i]...)
	}
	x = append(x, symLines(s)...)
	y = append(y, symLines(s)...)
	checkDiff(x, y)
}

// VerifC08AnchoredShort: the same template with short runs of common lines
// (fewer than 2*3, where two changes share one hunk or barely do not).
func VerifC08AnchoredShort() { VerifC08Anchored() }
