//go:build verif

package goproxytest

import (
	"archive/zip"
	"io"
	"net/http"
	"net/url"
	"strings"

	"golang.org/x/mod/module"

	"github.com/rogpeppe/go-internal/par"

	rt "github.com/rogpeppe/go-internal/internal/verifrt"
	"github.com/rogpeppe/go-internal/internal/verifrt/vfs"
)

// C20 (in part): the proxy's handler and module discovery, run on a generated
// module directory in the file-system model, one request at a time.
//
// Stubs: http.NotFound / http.Error record the status; archive/zip is
// replaced by a recorder (the zip container format itself is not examined);
// par.Cache.Do calls its function directly (its once-per-key behaviour under
// concurrency is C10's claim); encoding/json.Unmarshal is not reached (no
// all-hex version is requested).

// ---- response recorder ----

type vResp struct {
	status int
	body   []byte
	hdr    http.Header
}

func (w *vResp) Header() http.Header {
	if w.hdr == nil {
		w.hdr = http.Header{}
	}
	return w.hdr
}
func (w *vResp) Write(p []byte) (int, error) {
	if w.status == 0 {
		w.status = 200
	}
	w.body = append(w.body, p...)
	return len(p), nil
}
func (w *vResp) WriteHeader(code int) {
	if w.status == 0 {
		w.status = code
	}
}

func vC20NotFound(w http.ResponseWriter, r *http.Request) { w.WriteHeader(404) }
func vC20Error(w http.ResponseWriter, msg string, code int) { w.WriteHeader(code) }

// ---- zip recorder ----

type vZipEntry struct {
	name string
	data []byte
}

type vZipState struct {
	out     io.Writer
	entries []*vZipEntry
}

var vZip *vZipState

type vZipFile struct{ e *vZipEntry }

func (f vZipFile) Write(p []byte) (int, error) {
	f.e.data = append(f.e.data, p...)
	return len(p), nil
}

func vC20ZipNewWriter(w io.Writer) *zip.Writer {
	vZip = &vZipState{out: w}
	return &zip.Writer{}
}

func vC20ZipCreate(z *zip.Writer, name string) (io.Writer, error) {
	e := &vZipEntry{name: name}
	vZip.entries = append(vZip.entries, e)
	return vZipFile{e}, nil
}

func vC20ZipClose(z *zip.Writer) error {
	// the recorder's container format: a marker, then name NUL data SOH per entry
	if _, err := vZip.out.Write([]byte("MODELZIP")); err != nil {
		return err
	}
	for _, e := range vZip.entries {
		vZip.out.Write([]byte(e.name))
		vZip.out.Write([]byte{0})
		vZip.out.Write(e.data)
		vZip.out.Write([]byte{1})
	}
	return nil
}

// par.Cache.Do, sequentially: the function runs once per (cache, key) and its result is kept
// (what C10 establishes under concurrency).
type vMemoEntry struct {
	c   *par.Cache
	key any
	val any
}

var vMemo []vMemoEntry

func vC20CacheDo(c *par.Cache, key any, f func() any) any {
	for _, m := range vMemo {
		if m.c == c && m.key == key {
			return m.val
		}
	}
	v := f()
	vMemo = append(vMemo, vMemoEntry{c, key, v})
	return v
}

var vC20Stubs = map[string]any{
	"stub:net/http.NotFound":                 vC20NotFound,
	"stub:net/http.Error":                    vC20Error,
	"stub:archive/zip.NewWriter":             vC20ZipNewWriter,
	"stub:(*archive/zip.Writer).Create":      vC20ZipCreate,
	"stub:(*archive/zip.Writer).Close":       vC20ZipClose,
	"stub:(*github.com/rogpeppe/go-internal/par.Cache).Do": vC20CacheDo,
}

// ---- the generated module directory ----

type vMod struct {
	path, vers string // unescaped
	file       string // name in the directory (escaped), without extension
	layout     int    // 0 .txtar, 1 .txt, 2 directory
	listed     bool   // expected on the list endpoint (valid, not a pseudo-version)
}

var vMenu = []vMod{
	{"example.com/a", "v1.0.0", "example.com_a_v1.0.0", 0, true},
	{"example.com/a", "v1.1.0", "example.com_a_v1.1.0", 1, true},
	{"example.com/a", "v1.2.0-pre", "example.com_a_v1.2.0-pre", 2, true},
	{"example.com/a", "v0.0.0-20180101000000-abcdef123456", "example.com_a_v0.0.0-20180101000000-abcdef123456", 0, false},
	{"example.com/Big", "v1.0.0", "example.com_!big_v1.0.0", 0, true},
	{"example.com/a/v2", "v2.0.0", "example.com_a_v2_v2.0.0", 1, true},
	{"example.com/b", "v2.0.0+incompatible", "example.com_b_v2.0.0+incompatible", 0, true},
	{"example.com/a", "v1.3.0-beta", "example.com_a_v1.3.0-beta", 0, true}, // version ending in letters that also occur in the extensions
	{"example.com/b", "v1.4.0-next", "example.com_b_v1.4.0-next", 1, true},
	{"example.com/c/v2", "v1.5.0", "example.com_c_v2_v1.5.0", 0, false}, // version does not match the path's major suffix: stored, never listed
}

type vFile struct {
	name string
	data []byte
}

const vDir = "/mods"

func vC20Files(i int, b byte) []vFile {
	m := vMenu[i]
	return []vFile{
		{".info", []byte(`{"Version":"` + m.vers + `"}` + "\n")},
		{".mod", []byte("module " + m.path + "\n")},
		{"go.mod", []byte("module " + m.path + "\n")},
		{"sub/x.go", []byte{'p', b, '\n'}},
		{".hidden", []byte("h\n")},
		{"sub/.keep", []byte("k\n")},
	}
}

func vC20Store(fsys *vfs.FS, i int, files []vFile) {
	m := vMenu[i]
	switch m.layout {
	case 0, 1:
		var sb strings.Builder
		for _, f := range files {
			sb.WriteString("-- " + f.name + " --\n")
			sb.Write(f.data)
		}
		ext := ".txtar"
		if m.layout == 1 {
			ext = ".txt"
		}
		fsys.PutFile(vDir+"/"+m.file+ext, []byte(sb.String()), 1)
	case 2:
		fsys.MkdirAllP(vDir + "/" + m.file + "/sub")
		for _, f := range files {
			fsys.PutFile(vDir+"/"+m.file+"/"+f.name, f.data, 1)
		}
	}
}

// VerifC20Serve: up to N module versions from the menu are stored (solver's
// choice), with one symbolic content byte each; one request is served.
func VerifC20Serve() {
	fsys := vfs.New()
	fsys.NowSec = 1700000000
	fsys.MkdirAllP(vDir)
	fsys.PutFile(vDir+"/README.md", []byte("not a module\n"), 1)
	n := rt.Param("N", 2)
	present := make([]bool, len(vMenu))
	content := make([]byte, len(vMenu))
	stored := 0
	for i := range vMenu {
		if stored < n && rt.Bool() {
			b := rt.Byte()
			rt.Assume(b != '\n' && b != '\r' && b != '-')
			present[i], content[i] = true, b
			vC20Store(fsys, i, vC20Files(i, b))
			stored++
		}
	}
	var logs int
	srv := Server{dir: vDir, logf: func(string, ...any) { logs++ }}
	err := srv.readModList()
	rt.Assert(err == nil, "module-list-read")
	if err != nil {
		return
	}
	// the request: a module of the menu (stored or not) or an unknown one, and an endpoint
	target := rt.IntRange(0, len(vMenu)) // len(vMenu): a module nobody stored
	kind := rt.IntRange(0, 5)            // 0 list, 1 info, 2 mod, 3 zip, 4 unknown extension, 5 version not stored
	var mpath, mvers string
	if target < len(vMenu) {
		mpath, mvers = vMenu[target].path, vMenu[target].vers
	} else {
		mpath, mvers = "example.com/none", "v1.0.0"
	}
	if kind == 5 {
		mvers = "v9.9.9"
	}
	encPath, _ := module.EscapePath(mpath)
	encVers, _ := module.EscapeVersion(mvers)
	file := map[int]string{0: "list", 1: encVers + ".info", 2: encVers + ".mod", 3: encVers + ".zip", 4: encVers + ".tgz", 5: encVers + ".info"}[kind]
	u := "/mod/" + encPath + "/@v/" + file
	rt.Observe("request", u)
	w := &vResp{}
	vZip = nil
	vMemo = nil
	srv.handler(w, &http.Request{URL: &url.URL{Path: u}})

	have := target < len(vMenu) && present[target] && kind != 5
	switch kind {
	case 0:
		// exactly the valid non-pseudo versions of that module which are stored (in any order)
		want := map[string]int{}
		nwant := 0
		for i, m := range vMenu {
			if present[i] && m.path == mpath && m.listed {
				want[m.vers]++
				nwant++
			}
		}
		if nwant == 0 {
			rt.Assert(w.status == 404, "list-of-unknown-module-is-404")
			rt.Reach("list-404")
		} else {
			body := string(w.body)
			okList := w.status == 200 && strings.HasSuffix(body, "\n")
			if okList {
				lines := strings.Split(strings.TrimSuffix(body, "\n"), "\n")
				okList = len(lines) == nwant
				for _, l := range lines {
					want[l]--
				}
				for _, c := range want {
					if c != 0 {
						okList = false
					}
				}
			}
			rt.Assert(okList, "list-exactly-valid-stored-versions")
			rt.Reach("list-200")
		}
	case 1, 2:
		if !have {
			rt.Assert(w.status == 404 && len(w.body) == 0, "missing-version-is-404")
			rt.Reach("file-404")
			return
		}
		fl := vC20Files(target, content[target])
		want := fl[kind-1].data
		rt.Assert(w.status == 200 && rt.BytesEq(w.body, want), "info-and-mod-byte-identical")
		rt.Reach("file-200")
		if vMenu[target].layout == 2 {
			rt.Reach("directory-layout")
		}
	case 3:
		if !have {
			rt.Assert(w.status == 404 && len(w.body) == 0, "missing-version-is-404")
			return
		}
		rt.Assert(w.status == 200 && strings.HasPrefix(string(w.body), "MODELZIP") && vZip != nil, "zip-served")
		if vZip == nil {
			return
		}
		fl := vC20Files(target, content[target])
		prefix := mpath + "@" + mvers + "/"
		wantN := 0
		for _, f := range fl {
			if strings.HasPrefix(f.name, ".") {
				continue
			}
			wantN++
			found := 0
			for _, e := range vZip.entries {
				if e.name == prefix+f.name {
					found++
					rt.Assert(rt.BytesEq(e.data, f.data), "zip-entry-content-identical")
				}
			}
			rt.Assert(found == 1, "zip-holds-every-stored-file-once")
		}
		rt.Assert(len(vZip.entries) == wantN, "zip-holds-nothing-else")
		rt.Reach("zip-200")
		// the same zip again, after the zip of another stored module was built in between:
		// the response is the same bytes
		first := append([]byte{}, w.body...)
		for i, m := range vMenu {
			if present[i] && i != target {
				ep, _ := module.EscapePath(m.path)
				ev, _ := module.EscapeVersion(m.vers)
				srv.handler(&vResp{}, &http.Request{URL: &url.URL{Path: "/mod/" + ep + "/@v/" + ev + ".zip"}})
				rt.Reach("another-zip-built-in-between")
				break
			}
		}
		w2 := &vResp{}
		srv.handler(w2, &http.Request{URL: &url.URL{Path: u}})
		rt.Assert(w2.status == 200 && len(w2.body) == len(first), "repeated-zip-request-same-length")
		if len(w2.body) == len(first) {
			rt.Assert(rt.BytesEq(w2.body, first), "repeated-zip-request-same-bytes")
		}
	case 4:
		rt.Assert(w.status == 404 && len(w.body) == 0, "unknown-endpoint-is-404")
	case 5:
		rt.Assert(w.status == 404 && len(w.body) == 0, "missing-version-is-404")
	}
}
