//go:build verif

package imports

import (
	"bytes"
	"strings"

	rt "github.com/rogpeppe/go-internal/internal/verifrt"
)

// ---- generator of valid Go files (import section known by construction) ----

// symbolic comment byte: anything but NUL and newline; in a one-byte body
// also not '*' (so that it can sit in both comment forms without ending them)
func vCommentByte(star bool) byte {
	b := rt.Byte()
	rt.Assume(b != 0)
	rt.Assume(b < 0x80) // a valid Go file is valid UTF-8
	rt.Assume(b != '\n')
	if !star {
		rt.Assume(b != '*')
	}
	return b
}

// slot menus. kind 0: optional blank; 1: required blank between words (no
// newline: a newline after an identifier would insert a semicolon);
// 2: statement separator; 3: blank where a newline is harmless; 4: required
// blank where a newline is harmless (after the import keyword before a name).
func vSlot(kind int, vary bool) string {
	def := []string{"", " ", "\n", "", " "}[kind]
	if !vary {
		return def
	}
	var menu []string
	switch kind {
	case 0:
		menu = []string{"", " ", "\t\r", "/*c*/", "/*cc*/"}
	case 1:
		menu = []string{" ", "\t", "/*c*/", " /*cc*/ "}
	case 2:
		menu = []string{"\n", ";", ";\n", " //c\n", "\r\n", "\n\n"}
	case 3:
		menu = []string{"", " ", "\n", "//c\n", "/*c*/", "\t\r\n", "/*cc*/"}
	case 4:
		menu = []string{" ", "\t", "\n", "//c\n", "/*c*/", " \r\n", "/*cc*/"}
	}
	s := menu[rt.IntRange(0, len(menu)-1)]
	// a 'c' in a comment stands for a symbolic byte
	var out []byte
	for i := 0; i < len(s); i++ {
		if s[i] != 'c' {
			out = append(out, s[i])
			continue
		}
		if i+1 < len(s) && s[i+1] == 'c' {
			// two-byte block comment body: any bytes (asterisks included)
			// that do not end the comment early
			b1, b2 := vCommentByte(true), vCommentByte(true)
			rt.Assume(rt.Not(rt.And(b1 == '*', b2 == '/')))
			out = append(out, b1, b2)
			i++
			continue
		}
		out = append(out, vCommentByte(false))
	}
	return string(out)
}

var vAliases = []string{"_x", "__", "_1", "", ".", "_", "x", "x9", "\xcf\x80"}

// vString returns an import path literal with symbolic contents.
func vString(vary bool, maxLen int) string {
	if !vary {
		return `"a"`
	}
	raw := rt.Bool()
	n := rt.IntRange(0, maxLen)
	b := rt.Bytes(n)
	q := byte('"')
	if raw {
		q = '`'
	}
	for i := range b {
		rt.Assume(b[i] != 0)
		rt.Assume(b[i] < 0x80)
		rt.Assume(b[i] != q)
		if !raw {
			rt.Assume(b[i] != '\n')
			rt.Assume(b[i] != '\\')
		}
	}
	return string(q) + string(b) + string(q)
}

// vPathValue is the import path literal go/parser reports for the source
// text lit: the text itself, except that the Go scanner discards carriage
// returns from raw string literals.
func vPathValue(lit string) string {
	if lit[0] != '`' {
		return lit
	}
	var out []byte
	for i := 0; i < len(lit); i++ {
		if lit[i] != '\r' {
			out = append(out, lit[i])
		} else {
			rt.Reach("carriage-return-in-raw-string")
		}
	}
	return string(out)
}

type vGen struct {
	buf     bytes.Buffer
	slot    int
	varyA   int
	varyB   int
	imports []string
	varyStr bool
	strLen  int
}

func (g *vGen) sl(kind int) {
	vary := g.slot == g.varyA || g.slot == g.varyB
	g.slot++
	g.buf.WriteString(vSlot(kind, vary))
}

// spec emits one import spec. afterKw: the spec directly follows the import
// keyword, so the slot before it is emitted here (a blank is required when
// a name follows the keyword).
func (g *vGen) spec(afterKw bool) {
	alias := ""
	if g.varyStr {
		alias = vAliases[rt.IntRange(0, len(vAliases)-1)]
	}
	if afterKw {
		if alias != "" && alias != "." {
			g.sl(4)
		} else {
			g.sl(3)
		}
	}
	if alias != "" {
		g.buf.WriteString(alias)
		if alias == "." {
			g.sl(0)
		} else {
			g.sl(1)
		}
	} else {
		g.slot++
	}
	s := vString(g.varyStr, g.strLen)
	g.imports = append(g.imports, vPathValue(s))
	g.buf.WriteString(s)
}

var vRests = []string{"", "var x = 1\n", "func f() {}\n", "const c = \"import\"\n", "type T int"}

// vFile builds one file; returns source, expected imports, end offset of
// the import section and start offset of the rest token (both relative to
// the source after an optional BOM).
func vFile(shape int, bom bool, g *vGen) (src []byte, endImports, startRest int) {
	if bom {
		g.buf.WriteString("\xef\xbb\xbf")
	}
	base := g.buf.Len()
	g.sl(3)
	g.buf.WriteString("package")
	g.sl(1)
	g.buf.WriteString("p")
	switch shape {
	case 0: // no imports
	case 1: // one single import
		g.sl(2)
		g.buf.WriteString("import")
		g.spec(true)
	case 2: // one group of two
		g.sl(2)
		g.buf.WriteString("import")
		g.sl(3)
		g.buf.WriteString("(")
		g.sl(3)
		g.spec(false)
		g.sl(2)
		g.spec(false)
		g.sl(3)
		g.buf.WriteString(")")
	case 3: // single, then group of one, then empty group
		g.sl(2)
		g.buf.WriteString("import")
		g.spec(true)
		g.sl(2)
		g.buf.WriteString("import")
		g.sl(0)
		g.buf.WriteString("(")
		g.sl(3)
		g.spec(false)
		g.sl(3)
		g.buf.WriteString(")")
		g.sl(2)
		g.buf.WriteString("import()")
	}
	endImports = g.buf.Len() - base
	rest := vRests[rt.IntRange(0, len(vRests)-1)]
	if rest != "" {
		g.sl(2)
	} else {
		g.sl(3)
	}
	startRest = g.buf.Len() - base
	g.buf.WriteString(rest)
	return g.buf.Bytes(), endImports, startRest
}

func vCheckFile(src []byte, bom bool, want []string, endImports, startRest int) {
	var list []string
	report := rt.Bool()
	got, err := ReadImports(bytes.NewReader(src), report, &list)
	rt.Observe("src", src)
	rt.Assert(err == nil, "valid-file-no-error")
	rt.Assert(len(list) == len(want), "import-count")
	if len(list) == len(want) {
		ok := true
		for i := range want {
			ok = rt.And(ok, rt.StrEq(list[i], want[i]))
		}
		rt.Assert(ok, "imports-equal-in-order")
	}
	body := src
	if bom {
		body = src[3:]
	}
	rt.Assert(len(got) <= len(body), "prefix-length")
	if len(got) <= len(body) {
		rt.Assert(rt.BytesEq(got, body[:len(got)]), "result-is-prefix-of-input")
		rt.Assert(len(got) >= endImports, "prefix-covers-import-section")
		rt.Assert(len(got) <= startRest || len(got) == len(body), "prefix-stops-before-declarations")
	}
	vNativeParserCheck(src, want)
}

// VerifC18Slots: fixed tokens, up to PAIR separator slots vary over their
// menus (blanks of every kind, semicolons, both comment forms with
// symbolic bodies); optional BOM.
func VerifC18Slots() {
	shape := rt.IntRange(0, 3)
	bom := rt.Bool()
	g := &vGen{varyA: -1, varyB: -1}
	nslots := []int{3, 7, 12, 16}[shape]
	g.varyA = rt.IntRange(0, nslots-1)
	if rt.Param("PAIR", 1) >= 2 {
		g.varyB = rt.IntRange(g.varyA, nslots-1)
	}
	src, e, s := vFile(shape, bom, g)
	if bom {
		rt.Reach("bom")
	}
	if len(g.imports) >= 2 {
		rt.Reach("several-imports")
	}
	vCheckFile(src, bom, g.imports, e, s)
}

// VerifC18Specs: default separators; aliases (none, dot, blank, names incl.
// non-ASCII) and path literals (raw/interpreted, symbolic contents) vary.
func VerifC18Specs() {
	shape := rt.IntRange(1, 3)
	bom := rt.Bool()
	g := &vGen{varyA: -1, varyB: -1, varyStr: true, strLen: rt.Param("PL", 2)}
	src, e, s := vFile(shape, bom, g)
	rt.Reach("specs")
	vCheckFile(src, bom, g.imports, e, s)
}

// VerifC18LongLines: files whose comments, blank runs or import paths are
// longer than any internal read buffer (bufio's default is 4096 bytes): a
// long piece of a solver-chosen kind and length is placed before, between or
// after two imports.
func VerifC18LongLines() {
	kind := rt.IntRange(0, 3)
	n := []int{100, 4095, 4096, 5000, 9000}[rt.IntRange(0, rt.Param("LENS", 4))]
	where := rt.IntRange(0, 2)
	var long string
	switch kind {
	case 0:
		long = "//" + strings.Repeat("x", n) + "\n"
	case 1:
		long = "/*" + strings.Repeat("y", n) + "*/"
	case 2:
		long = strings.Repeat(" ", n)
	case 3:
		long = strings.Repeat("\n", n)
	}
	parts := []string{"package p\n", "import \"a\"\n", "import b \"c\"\n"}
	var sb strings.Builder
	for i, part := range parts {
		sb.WriteString(part)
		if i == where {
			sb.WriteString(long)
		}
	}
	end := sb.Len()
	if where == 2 {
		end -= len(long)
	}
	sb.WriteString("var x = 1\n")
	src := []byte(sb.String())
	rt.Reach("long-piece")
	if n >= 4096 {
		rt.Reach("longer-than-a-read-buffer")
	}
	vCheckFile(src, false, []string{"\"a\"", "\"c\""}, end-1, len(src)-len("var x = 1\n"))
}

// VerifC18Arbitrary: arbitrary bytes after fixed prefixes: termination
// without panic, result is a prefix of the input, and without syntax-error
// reporting a file with a syntax error is returned whole.
func VerifC18Arbitrary() {
	prefixes := []string{"", "package p;", "package p;import ", "package p;import (", "package p;import \"a\";"}
	pre := prefixes[rt.IntRange(0, len(prefixes)-1)]
	n := rt.IntRange(0, rt.Param("N", 4))
	tail := rt.Bytes(n)
	src := append([]byte(pre), tail...)
	input := src
	if len(src) >= 3 {
		if rt.And(rt.And(src[0] == 0xef, src[1] == 0xbb), src[2] == 0xbf) {
			src = src[3:] // a byte-order mark aside
			rt.Reach("arbitrary-with-bom")
		}
	}
	var l1, l2 []string
	got1, err1 := ReadImports(bytes.NewReader(input), true, &l1)
	got2, err2 := ReadImports(bytes.NewReader(input), false, &l2)
	rt.Reach("ran")
	rt.Assert(len(got1) <= len(src), "strict-prefix-length")
	if len(got1) <= len(src) {
		rt.Assert(rt.BytesEq(got1, src[:len(got1)]), "strict-result-is-prefix")
	}
	rt.Assert(len(got2) <= len(src), "lenient-prefix-length")
	if len(got2) <= len(src) {
		rt.Assert(rt.BytesEq(got2, src[:len(got2)]), "lenient-result-is-prefix")
	}
	if err1 == errSyntax {
		rt.Reach("syntax-error")
		if err2 == nil {
			rt.Assert(len(got2) == len(src), "lenient-returns-whole-input")
		} else {
			rt.Assert(err2 == errNUL, "lenient-error-is-nul-only")
			rt.Reach("nul")
		}
	}
	if err1 == nil {
		rt.Assert(err2 == nil, "lenient-agrees-when-valid")
		rt.Assert(len(got1) == len(got2), "same-prefix-when-valid")
		rt.Assert(len(l1) == len(l2), "same-imports-when-valid")
	}
}

// VerifC18NewlineInString: an import path literal holding a raw newline. In
// an interpreted string that is a syntax error: reported when asked for,
// and otherwise the whole input comes back (so that a full parse reports
// the error). The same bytes in a raw string are a valid import path.
func VerifC18NewlineInString() {
	a, b := rt.Byte(), rt.Byte()
	rt.Assume(a >= 'a' && a <= 'z')
	rt.Assume(b >= 'a' && b <= 'z')
	bodies := []string{
		"\n" + string([]byte{a, b}),
		string([]byte{a}) + "\n" + string([]byte{b}),
		string([]byte{a, b}) + "\n",
		string([]byte{a}) + "\r\n" + string([]byte{b}),
	}
	form := rt.IntRange(0, 3)
	body := bodies[form]
	pre := []string{"package p\nimport ", "package p\nimport x ", "package p\nimport (\n\t\"c\"\n\t", "package p;import \"c\";import "}[rt.IntRange(0, 3)]
	grouped := strings.HasSuffix(pre, "(\n\t\"c\"\n\t")
	post := "\n"
	if grouped {
		post = "\n)\n"
	}
	rest := "var x = 1\n"
	if rt.Bool() {
		// raw string: valid (a carriage return inside a raw string is
		// not part of the literal's value)
		lit := "`" + body + "`"
		src := []byte(pre + lit + post + rest)
		want := []string{vPathValue(lit)}
		if strings.Contains(pre, "\"c\"") {
			want = []string{"\"c\"", vPathValue(lit)}
		}
		rt.Reach("newline-in-raw-string")
		vCheckFile(src, false, want, len(src)-len(rest)-1, len(src)-len(rest))
		return
	}
	src := []byte(pre + "\"" + body + "\"" + post + rest)
	rt.Observe("src", src)
	var l1, l2 []string
	_, err1 := ReadImports(bytes.NewReader(src), true, &l1)
	got2, err2 := ReadImports(bytes.NewReader(src), false, &l2)
	rt.Reach("newline-in-interpreted-string")
	rt.Assert(err1 == errSyntax, "newline-in-interpreted-string-is-a-syntax-error")
	rt.Assert(err2 == nil, "lenient-reports-no-error")
	rt.Assert(len(got2) == len(src), "lenient-returns-whole-input")
	if len(got2) == len(src) {
		rt.Assert(rt.BytesEq(got2, src), "lenient-returns-the-input-bytes")
	}
}
