//go:build verif && !symx

package imports

import (
	"go/parser"
	"go/token"

	rt "github.com/rogpeppe/go-internal/internal/verifrt"
)

// vNativeParserCheck runs only in native replay: the generated file must be
// valid Go and go/parser must report the same import literals in the same
// order. This is how "same as go/parser" enters the check: every replayed
// path witness validates the generator's expected list against go/parser.
func vNativeParserCheck(src []byte, want []string) {
	f, err := parser.ParseFile(token.NewFileSet(), "x.go", src, parser.ImportsOnly)
	if err != nil {
		rt.Fail("generator-produced-invalid-go:" + err.Error())
		return
	}
	if len(f.Imports) != len(want) {
		rt.Fail("generator-expected-list-differs-from-go-parser")
		return
	}
	for i, im := range f.Imports {
		if im.Path.Value != want[i] {
			rt.Fail("generator-expected-list-differs-from-go-parser")
		}
	}
}
