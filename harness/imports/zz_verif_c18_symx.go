//go:build verif && symx

package imports

func vNativeParserCheck(src []byte, want []string) {}
