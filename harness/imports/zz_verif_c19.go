//go:build verif

package imports

import (
	"strings"
	"unicode"

	rt "github.com/rogpeppe/go-internal/internal/verifrt"
)

// ---- reference evaluator written from the property text ----

var vTagVocab = []string{"linux", "android", "amd64", "windows", "foo", "bar", "ignore", "cgo", "*", "caf\u00e9"}

func vSymTags() map[string]bool {
	tags := map[string]bool{}
	for _, k := range vTagVocab {
		tags[k] = rt.Bool()
	}
	return tags
}

func vWellFormedTag(s string) bool {
	if s == "" {
		return false
	}
	// letters and digits (of any script), underscore and dot
	for _, c := range s {
		ok := c >= 'a' && c <= 'z' || c >= 'A' && c <= 'Z' || c >= '0' && c <= '9' || c == '_' || c == '.' ||
			c >= 0x80 && (unicode.IsLetter(c) || unicode.IsDigit(c))
		if !ok {
			return false
		}
	}
	return true
}

// vSelects: does the tag set select tag name (android also selects linux).
func vSelects(name string, tags map[string]bool) bool {
	if name == "linux" {
		return rt.Or(tags["linux"], tags["android"])
	}
	return tags[name]
}

// vTerm evaluates one term: [!]tag.
func vTerm(term string, tags map[string]bool) bool {
	neg := false
	if strings.HasPrefix(term, "!") {
		neg = true
		term = term[1:]
	}
	if strings.HasPrefix(term, "!") || !vWellFormedTag(term) {
		return false // "!!", empty or malformed
	}
	star := tags["*"]
	if term == "ignore" {
		star = false
	}
	sel := vSelects(term, tags)
	if neg {
		sel = rt.Not(sel)
	}
	return rt.Or(star, sel)
}

// vOption: comma-separated terms are ANDed.
func vOption(opt string, tags map[string]bool) bool {
	if opt == "" {
		return false
	}
	res := true
	for _, t := range strings.Split(opt, ",") {
		res = rt.And(res, vTerm(t, tags))
	}
	return res
}

// vLine: space-separated options are ORed.
func vLine(opts []string, tags map[string]bool) bool {
	res := false
	for _, o := range opts {
		res = rt.Or(res, vOption(o, tags))
	}
	return res
}

// ---- generators ----

var vNeg = []string{"", "!", "!!"}
var vTermTags = []string{"foo", "linux", "android", "ignore", "a-b", "", "bar", "386", "caf\u00e9", "a\u00d7b"}

func vGenTerm(ntags int) string {
	return vNeg[rt.IntRange(0, 2)] + vTermTags[rt.IntRange(0, ntags-1)]
}

func vGenOption(maxTerms, ntags int) string {
	n := rt.IntRange(1, maxTerms)
	s := vGenTerm(ntags)
	for i := 1; i < n; i++ {
		s += "," + vGenTerm(ntags)
	}
	return s
}

// VerifC19Terms: one +build line with up to O options of up to T terms over
// the full term vocabulary (negation, double negation, malformed, empty,
// linux/android, ignore, *), all tag sets.
func VerifC19Terms() {
	tags := vSymTags()
	no := rt.IntRange(1, rt.Param("O", 2))
	var opts []string
	for i := 0; i < no; i++ {
		opts = append(opts, vGenOption(rt.Param("T", 2), rt.Param("V", 6)))
	}
	sep := " "
	if rt.Bool() {
		sep = "\t "
	}
	content := "// +build " + strings.Join(opts, sep) + "\n\npackage p\n"
	rt.Observe("content", content)
	want := vLine(opts, tags)
	got := ShouldBuild([]byte(content), tags)
	rt.Reach("evaluated")
	rt.Assert(got == want, "shouldbuild-single-line")
}

// VerifC19Block: structure of the leading comment block. Items are +build
// lines (with symbolic-valued simple options), other comments and blank
// lines; then an optional blank line and the package clause. Only +build
// lines before the last blank line of the leading run count, and all of
// them must hold.
func VerifC19Block() {
	tags := vSymTags()
	n := rt.IntRange(0, rt.Param("I", 3))
	simple := []string{"foo", "!foo", "bar", "linux", "foo,bar", "foo bar", "!bar android"}
	var sb strings.Builder
	type item struct {
		kind int // 0 +build, 1 other comment, 2 blank
		opts []string
		pos  int
	}
	var items []item
	for i := 0; i < n; i++ {
		k := rt.IntRange(0, 2)
		it := item{kind: k, pos: i}
		switch k {
		case 0:
			line := simple[rt.IntRange(0, len(simple)-1)]
			it.opts = strings.Fields(line)
			switch rt.IntRange(0, 2) {
			case 0:
				sb.WriteString("// +build " + line + "\n")
			case 1:
				sb.WriteString("//+build " + line + "\n")
			case 2:
				sb.WriteString("  //  +build   " + line + "  \n")
			}
		case 1:
			if rt.Bool() {
				sb.WriteString("// +builder foo\n") // not a +build line
			} else {
				sb.WriteString("// plain comment\n")
			}
		case 2:
			if rt.Bool() {
				sb.WriteString("\n")
			} else {
				sb.WriteString(" \t\n")
			}
		}
		items = append(items, it)
	}
	trailingBlank := rt.Bool()
	if trailingBlank {
		sb.WriteString("\n")
	}
	switch rt.IntRange(0, 2) {
	case 0:
		sb.WriteString("package p\n")
	case 1:
		sb.WriteString("/* c */ package p\n// +build ignore\n\n")
	case 2:
		// file ends after the comment block
	}
	content := sb.String()
	// reference: the leading run ends at the last blank line before the
	// first non-comment line; every item is comment or blank, so the last
	// blank item (or the trailing blank) delimits it.
	lastBlank := -1
	for _, it := range items {
		if it.kind == 2 {
			lastBlank = it.pos
		}
	}
	if trailingBlank {
		lastBlank = n
	}
	want := true
	for _, it := range items {
		if it.kind == 0 && it.pos < lastBlank {
			want = rt.And(want, vLine(it.opts, tags))
			rt.Reach("effective-build-line")
		} else if it.kind == 0 {
			rt.Reach("ineffective-build-line")
		}
	}
	rt.Observe("content", content)
	got := ShouldBuild([]byte(content), tags)
	rt.Assert(got == want, "shouldbuild-block")
}

// ---- MatchFile ----

var vSegs = []string{"x", "linux", "android", "windows", "amd64", "386", "test", "", "plan10"}
var vKnownOS = map[string]bool{"linux": true, "android": true, "windows": true}
var vKnownArch = map[string]bool{"amd64": true, "386": true}

func vMatchFileRef(segs []string, tags map[string]bool) bool {
	// segs[0] is the ignored prefix; fewer than two segments: no underscore
	l := segs[1:]
	if n := len(l); n > 0 && l[n-1] == "test" {
		l = l[:n-1]
	}
	n := len(l)
	res := true
	switch {
	case n >= 2 && vKnownOS[l[n-2]] && vKnownArch[l[n-1]]:
		res = rt.And(vSelectsFile(l[n-2], tags), tags[l[n-1]])
	case n >= 1 && vKnownOS[l[n-1]]:
		res = vSelectsFile(l[n-1], tags)
	case n >= 1 && vKnownArch[l[n-1]]:
		res = tags[l[n-1]]
	}
	return rt.Or(tags["*"], res)
}

func vSelectsFile(os string, tags map[string]bool) bool {
	if os == "linux" {
		return rt.Or(tags["linux"], tags["android"])
	}
	return tags[os]
}

// VerifC19MatchFile: all file names of up to S segments from the segment
// vocabulary, all tag sets.
func VerifC19MatchFile() {
	tags := map[string]bool{}
	for _, k := range []string{"linux", "android", "windows", "amd64", "386", "*", "test", "x"} {
		tags[k] = rt.Bool()
	}
	n := rt.IntRange(1, rt.Param("S", 4))
	segs := make([]string, n)
	for i := range segs {
		segs[i] = vSegs[rt.IntRange(0, len(vSegs)-1)]
	}
	name := strings.Join(segs, "_")
	switch rt.IntRange(0, 2) {
	case 0:
		name += ".go"
	case 1:
		name += ".x.go"
	case 2:
	}
	rt.Observe("name", name)
	want := vMatchFileRef(segs, tags)
	got := MatchFile(name, tags)
	rt.Reach("matched")
	rt.Assert(got == want, "matchfile")
}

// VerifC19TermsWide: the same as VerifC19Terms, registered with a wider
// vocabulary and fewer options.
func VerifC19TermsWide() { VerifC19Terms() }
