//go:build verif && !symx

// Native implementation of the harness API: inputs come from a replay
// table (the values a solver model assigned to the path's input variables,
// in creation order), so the harness runs as ordinary Go code against the
// real build.
package verifrt

import (
	"reflect"
	"bufio"
	"crypto/sha256"
	"fmt"
	"os"
	"strconv"
	"strings"
)

type AssertFail struct{ ID string }
type AssumeFail struct{}
type ReplayExhausted struct{}
type StopPath struct{}

var (
	replay  []uint64
	pos     int
	params  map[string]int
	obs     []string
	reached []string
)

func next() uint64 {
	if pos >= len(replay) {
		panic(ReplayExhausted{})
	}
	v := replay[pos]
	pos++
	return v
}

func Byte() byte     { return byte(next()) }
func Bool() bool     { return next() != 0 }
func Int64() int64   { return int64(next()) }
func Int() int       { return int(int64(next())) }
func Uint64() uint64 { return next() }
func Int32() int32   { return int32(next()) }
func Uint32() uint32 { return uint32(next()) }
func IntRange(lo, hi int) int {
	if lo == hi {
		return lo
	}
	return int(int64(next()))
}
func Bytes(n int) []byte {
	b := make([]byte, n)
	for i := range b {
		b[i] = byte(next())
	}
	return b
}
func String(n int) string { return string(Bytes(n)) }
func Assume(c bool) {
	if !c {
		panic(AssumeFail{})
	}
}
func Assert(c bool, id string) {
	if !c {
		panic(AssertFail{id})
	}
}
func Fail(id string)  { panic(AssertFail{id}) }
func Reach(id string) { reached = append(reached, id) }
func Param(name string, def int) int {
	if v, ok := params[name]; ok {
		return v
	}
	return def
}
func And(a, b bool) bool     { return a && b }
func Or(a, b bool) bool      { return a || b }
func Not(a bool) bool        { return !a }
func Implies(a, b bool) bool { return !a || b }
func Ite(c bool, a, b int) int {
	if c {
		return a
	}
	return b
}
func IteByte(c bool, a, b byte) byte {
	if c {
		return a
	}
	return b
}
func BytesEq(a, b []byte) bool { return string(a) == string(b) }
func StrEq(a, b string) bool   { return a == b }

// SameState: structural equality of two values; functions compare equal,
// pointers, maps and channels by identity.
func SameState(a, b any) bool { return sameState(reflect.ValueOf(a), reflect.ValueOf(b)) }

func sameState(a, b reflect.Value) bool {
	if a.IsValid() != b.IsValid() {
		return false
	}
	if !a.IsValid() {
		return true
	}
	if a.Type() != b.Type() {
		return false
	}
	switch a.Kind() {
	case reflect.Func:
		return true
	case reflect.Struct:
		for i := 0; i < a.NumField(); i++ {
			if !sameState(a.Field(i), b.Field(i)) {
				return false
			}
		}
		return true
	case reflect.Array, reflect.Slice:
		if a.Len() != b.Len() {
			return false
		}
		for i := 0; i < a.Len(); i++ {
			if !sameState(a.Index(i), b.Index(i)) {
				return false
			}
		}
		return true
	case reflect.Interface:
		return sameState(a.Elem(), b.Elem())
	case reflect.Pointer, reflect.Map, reflect.Chan, reflect.UnsafePointer:
		return a.Pointer() == b.Pointer()
	case reflect.String:
		return a.String() == b.String()
	case reflect.Bool:
		return a.Bool() == b.Bool()
	case reflect.Int, reflect.Int8, reflect.Int16, reflect.Int32, reflect.Int64:
		return a.Int() == b.Int()
	case reflect.Uint, reflect.Uint8, reflect.Uint16, reflect.Uint32, reflect.Uint64, reflect.Uintptr:
		return a.Uint() == b.Uint()
	case reflect.Float32, reflect.Float64:
		return a.Float() == b.Float()
	}
	return true
}
func Observe(name string, v any) {
	obs = append(obs, name+"="+Render(v))
}
func ExpectPanic(ok bool)        {}
func Symbolic() bool             { return false }
func Concretize(v int) int       { return v }
func ConcretizeByte(v byte) byte { return v }
func IsConcrete(b []byte) bool   { return true }
func Hash(b []byte) [32]byte     { return sha256.Sum256(b) }
func Stop()                      { panic(StopPath{}) }

// Render is the canonical rendering of observed values (symx renders the
// symbolic value under the path's model in the same way).
func Render(v any) string {
	switch x := v.(type) {
	case string:
		return strconv.Quote(x)
	case []byte:
		return strconv.Quote(string(x))
	case bool:
		return strconv.FormatBool(x)
	case int:
		return strconv.FormatInt(int64(x), 10)
	case int64:
		return strconv.FormatInt(x, 10)
	case int32:
		return strconv.FormatInt(int64(x), 10)
	case byte:
		return strconv.FormatUint(uint64(x), 10)
	case uint64:
		return strconv.FormatUint(x, 10)
	case []string:
		parts := make([]string, len(x))
		for i, s := range x {
			parts[i] = strconv.Quote(s)
		}
		return "[" + strings.Join(parts, " ") + "]"
	case error:
		if x == nil {
			return "<nil>"
		}
		return "error"
	case nil:
		return "<nil>"
	}
	return fmt.Sprintf("?%T", v)
}

// RunReplays runs every record of $VERIF_REPLAY_FILE against the named
// harness functions and prints one REPLAY line per record.
// Record format: harness|k=v,k=v|v1,v2,...
func RunReplays(funcs map[string]func()) {
	path := os.Getenv("VERIF_REPLAY_FILE")
	f, err := os.Open(path)
	if err != nil {
		fmt.Println("REPLAY-ERROR cannot open replay file:", err)
		return
	}
	defer f.Close()
	sc := bufio.NewScanner(f)
	sc.Buffer(make([]byte, 1<<20), 1<<26)
	idx := 0
	for sc.Scan() {
		line := sc.Text()
		if line == "" {
			continue
		}
		parts := strings.SplitN(line, "|", 3)
		fn := funcs[parts[0]]
		params = map[string]int{}
		if parts[1] != "" {
			for _, kv := range strings.Split(parts[1], ",") {
				eq := strings.IndexByte(kv, '=')
				n, _ := strconv.Atoi(kv[eq+1:])
				params[kv[:eq]] = n
			}
		}
		replay = replay[:0]
		if len(parts) > 2 && parts[2] != "" {
			for _, s := range strings.Split(parts[2], ",") {
				n, _ := strconv.ParseUint(s, 10, 64)
				replay = append(replay, n)
			}
		}
		pos = 0
		obs = nil
		reached = nil
		outcome := "ok"
		if fn == nil {
			outcome = "nofunc"
		} else {
			func() {
				defer func() {
					if r := recover(); r != nil {
						switch r := r.(type) {
						case AssertFail:
							outcome = "assert:" + r.ID
						case AssumeFail:
							outcome = "assume"
						case StopPath:
							outcome = "stop"
						case ReplayExhausted:
							outcome = "exhausted"
						default:
							outcome = "panic:" + strings.ReplaceAll(fmt.Sprint(r), "\n", " ")
						}
					}
				}()
				fn()
			}()
		}
		fmt.Printf("REPLAY %d %s used=%d/%d obs=%s\n", idx, outcome, pos, len(replay), strings.Join(obs, ";"))
		idx++
	}
}
