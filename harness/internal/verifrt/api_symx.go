//go:build verif && symx

// Package verifrt is the harness API of the symx symbolic executor. Under
// the symx tag the bodies below are never executed: symx intercepts calls
// to these functions by name. The native implementation (api_native.go)
// replays recorded input values so that every harness is also an ordinary
// Go function.
package verifrt

func Byte() byte                       { return 0 }
func Bool() bool                       { return false }
func Int64() int64                     { return 0 }
func Int() int                         { return 0 }
func Uint64() uint64                   { return 0 }
func Int32() int32                     { return 0 }
func Uint32() uint32                   { return 0 }
func IntRange(lo, hi int) int          { return lo }
func Bytes(n int) []byte               { return nil }
func String(n int) string              { return "" }
func Assume(c bool)                    {}
func Assert(c bool, id string)         {}
func Fail(id string)                   {}
func Reach(id string)                  {}
func Param(name string, def int) int   { return def }
func And(a, b bool) bool               { return a && b }
func Or(a, b bool) bool                { return a || b }
func Not(a bool) bool                  { return !a }
func Implies(a, b bool) bool           { return !a || b }
func Ite(c bool, a, b int) int         { return a }
func IteByte(c bool, a, b byte) byte   { return a }
func BytesEq(a, b []byte) bool         { return false }
func StrEq(a, b string) bool           { return false }
func SameState(a, b any) bool          { return false }
func Observe(name string, v any)       {}
func ExpectPanic(ok bool)              {}
func Symbolic() bool                   { return true }
func Concretize(v int) int             { return v }
func ConcretizeByte(v byte) byte       { return v }
func IsConcrete(b []byte) bool         { return true }
func Hash(b []byte) [32]byte           { return [32]byte{} }
func Stop()                            {}
