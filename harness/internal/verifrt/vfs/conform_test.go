//go:build verif && !symx

package vfs

// Conformance of the file-system model with the real operating system:
// seeded operation sequences are applied both to a temporary directory
// through package os and to the model, and every observable result (error
// class, bytes read, sizes, directory listings, final tree) must agree.
// Run by the FS-model checks before they trust the model (symx vfsconform).

import (
	"errors"
	"fmt"
	"io"
	"io/fs"
	"math/rand"
	"os"
	"path/filepath"
	"sort"
	"strconv"
	"strings"
	"syscall"
	"testing"
)

func errClass(err error) string {
	switch {
	case err == nil:
		return "ok"
	case errors.Is(err, fs.ErrNotExist):
		return "ENOENT"
	case errors.Is(err, fs.ErrExist):
		return "EEXIST"
	case errors.Is(err, syscall.ENOTDIR):
		return "ENOTDIR"
	case errors.Is(err, syscall.EISDIR):
		return "EISDIR"
	case errors.Is(err, syscall.ENOTEMPTY):
		return "ENOTEMPTY"
	case errors.Is(err, io.EOF):
		return "EOF"
	case errors.Is(err, fs.ErrClosed):
		return "ECLOSED"
	case errors.Is(err, syscall.EBADF):
		return "EBADF"
	}
	return "other:" + err.Error()
}

func dumpReal(root string) string {
	_ = os.Readlink
	var out []string
	filepath.Walk(root, func(p string, info fs.FileInfo, err error) error {
		if err != nil || p == root {
			return nil
		}
		rel := p[len(root):]
		if info.Mode()&fs.ModeSymlink != 0 {
			t, _ := os.Readlink(p)
			out = append(out, rel+"->"+strings.TrimPrefix(t, root))
		} else if info.IsDir() {
			out = append(out, rel+"/")
		} else {
			b, _ := os.ReadFile(p)
			out = append(out, rel+"="+strconv.Quote(string(b)))
		}
		return nil
	})
	sort.Strings(out)
	return strings.Join(out, "\n")
}

func dumpModel(f *FS, root string) string {
	var out []string
	for k, n := range f.Nodes {
		if !strings.HasPrefix(k, root+"/") {
			continue
		}
		rel := k[len(root):]
		if n.Link != "" {
			out = append(out, rel+"->"+strings.TrimPrefix(n.Link, root))
		} else if n.Dir {
			out = append(out, rel+"/")
		} else {
			out = append(out, rel+"="+strconv.Quote(string(n.Data)))
		}
	}
	sort.Strings(out)
	return strings.Join(out, "\n")
}

func TestConform(t *testing.T) {
	seed, _ := strconv.ParseInt(os.Getenv("VERIF_SEED"), 10, 64)
	nseq := 150
	if s := os.Getenv("VFS_CONFORM_SEQS"); s != "" {
		nseq, _ = strconv.Atoi(s)
	}
	rng := rand.New(rand.NewSource(seed + 12345))
	names := []string{"a", "b", "d", "d/x", "d/y", "d/e", "d/e/z"}
	flagSets := []int{
		os.O_RDONLY, os.O_WRONLY, os.O_RDWR,
		os.O_WRONLY | os.O_CREATE, os.O_RDWR | os.O_CREATE, os.O_WRONLY | os.O_CREATE | os.O_TRUNC,
		os.O_WRONLY | os.O_CREATE | os.O_EXCL, os.O_RDWR | os.O_TRUNC, os.O_WRONLY | os.O_APPEND | os.O_CREATE,
	}
	ops, mismatches := 0, 0
	for s := 0; s < nseq; s++ {
		root := t.TempDir()
		m := New()
		m.MkdirAllP(root)
		type pair struct {
			r  *os.File
			v  *os.File
			wr bool
			ap bool
		}
		var handles []pair
		fail := func(step int, what, a, b string) {
			mismatches++
			if mismatches <= 10 {
				t.Errorf("seq %d step %d %s: real=%s model=%s", s, step, what, a, b)
			}
		}
		for step := 0; step < 14; step++ {
			ops++
			p := root + "/" + names[rng.Intn(len(names))]
			switch rng.Intn(18) {
			case 0:
				e1 := os.MkdirAll(p, 0o777)
				e2 := MkdirAll(p, 0o777)
				if errClass(e1) != errClass(e2) {
					fail(step, "mkdirall "+p, errClass(e1), errClass(e2))
				}
			case 1:
				e1 := os.Mkdir(p, 0o777)
				e2 := Mkdir(p, 0o777)
				if errClass(e1) != errClass(e2) {
					fail(step, "mkdir "+p, errClass(e1), errClass(e2))
				}
			case 2, 3:
				fl := flagSets[rng.Intn(len(flagSets))]
				r, e1 := os.OpenFile(p, fl, 0o666)
				v, e2 := OpenFile(p, fl, 0o666)
				if errClass(e1) != errClass(e2) {
					fail(step, fmt.Sprintf("open %s %#x", p, fl), errClass(e1), errClass(e2))
				}
				if e1 == nil && e2 == nil {
					handles = append(handles, pair{r, v, fl&(os.O_WRONLY|os.O_RDWR) != 0, fl&os.O_APPEND != 0})
				} else {
					if r != nil {
						r.Close()
					}
				}
			case 4:
				if len(handles) > 0 {
					h := handles[rng.Intn(len(handles))]
					data := []byte(strings.Repeat(string(rune('a'+rng.Intn(26))), 1+rng.Intn(4)))
					n1, e1 := h.r.Write(data)
					n2, e2 := FileWrite(h.v, data)
					if n1 != n2 || errClass(e1) != errClass(e2) {
						fail(step, "write", fmt.Sprint(n1, errClass(e1)), fmt.Sprint(n2, errClass(e2)))
					}
				}
			case 5:
				if len(handles) > 0 {
					h := handles[rng.Intn(len(handles))]
					b1 := make([]byte, 1+rng.Intn(5))
					b2 := make([]byte, len(b1))
					n1, e1 := h.r.Read(b1)
					n2, e2 := FileRead(h.v, b2)
					if n1 != n2 || errClass(e1) != errClass(e2) || string(b1[:n1]) != string(b2[:n2]) {
						fail(step, "read", fmt.Sprint(n1, errClass(e1), b1[:n1]), fmt.Sprint(n2, errClass(e2), b2[:n2]))
					}
				}
			case 6:
				if len(handles) > 0 {
					h := handles[rng.Intn(len(handles))]
					if !h.wr {
						break // truncate through a read-only descriptor is not modelled
					}
					sz := int64(rng.Intn(6))
					e1 := h.r.Truncate(sz)
					e2 := FileTruncate(h.v, sz)
					if errClass(e1) != errClass(e2) {
						fail(step, "truncate", errClass(e1), errClass(e2))
					}
				}
			case 7:
				if len(handles) > 0 {
					i := rng.Intn(len(handles))
					e1 := handles[i].r.Close()
					e2 := FileClose(handles[i].v)
					if errClass(e1) != errClass(e2) {
						fail(step, "close", errClass(e1), errClass(e2))
					}
					handles = append(handles[:i], handles[i+1:]...)
				}
			case 8:
				e1 := os.Remove(p)
				e2 := Remove(p)
				if errClass(e1) != errClass(e2) {
					fail(step, "remove "+p, errClass(e1), errClass(e2))
				}
			case 9:
				b1, e1 := os.ReadFile(p)
				b2, e2 := ReadFile(p)
				if errClass(e1) != errClass(e2) || string(b1) != string(b2) {
					fail(step, "readfile "+p, errClass(e1)+strconv.Quote(string(b1)), errClass(e2)+strconv.Quote(string(b2)))
				}
			case 10:
				i1, e1 := os.Stat(p)
				i2, e2 := Stat(p)
				if errClass(e1) != errClass(e2) {
					fail(step, "stat "+p, errClass(e1), errClass(e2))
				} else if e1 == nil && (i1.IsDir() != i2.IsDir() || (!i1.IsDir() && i1.Size() != i2.Size())) {
					fail(step, "stat "+p, fmt.Sprint(i1.IsDir(), i1.Size()), fmt.Sprint(i2.IsDir(), i2.Size()))
				}
			case 12:
				e1 := os.RemoveAll(p)
				e2 := RemoveAll(p)
				if errClass(e1) != errClass(e2) {
					fail(step, "removeall "+p, errClass(e1), errClass(e2))
				}
			case 13:
				if len(handles) > 0 {
					h := handles[rng.Intn(len(handles))]
					if !h.wr || h.ap {
						break // Go refuses WriteAt on O_APPEND files before reaching the OS
					}
					data := []byte(strings.Repeat("W", 1+rng.Intn(3)))
					off := int64(rng.Intn(6))
					n1, e1 := h.r.WriteAt(data, off)
					n2, e2 := FileWriteAt(h.v, data, off)
					if n1 != n2 || errClass(e1) != errClass(e2) {
						fail(step, "writeat", fmt.Sprint(n1, errClass(e1)), fmt.Sprint(n2, errClass(e2)))
					}
				}
			case 14:
				if len(handles) > 0 {
					h := handles[rng.Intn(len(handles))]
					if fi, err := h.r.Stat(); err != nil || fi.IsDir() {
						break // directory offsets are not modelled
					}
					off := int64(rng.Intn(5))
					wh := []int{io.SeekStart, io.SeekEnd}[rng.Intn(2)] // (SeekCurrent is not used by the code under test)
					o1, e1 := h.r.Seek(off, wh)
					o2, e2 := FileSeek(h.v, off, wh)
					if e1 == nil && e2 == nil && o1 != o2 {
						fail(step, "seek", fmt.Sprint(o1), fmt.Sprint(o2))
					}
				}
			case 16, 17:
				// symbolic links as last path component: l1, l2 point at a regular name or nowhere
				l := root + "/" + []string{"l1", "l2"}[rng.Intn(2)]
				tgt := root + "/" + []string{"a", "b", "d/x", "nowhere"}[rng.Intn(4)]
				switch rng.Intn(7) {
				case 0, 1:
					e1 := os.Symlink(tgt, l)
					e2 := Symlink(tgt, l)
					if errClass(e1) != errClass(e2) {
						fail(step, "symlink "+l, errClass(e1), errClass(e2))
					}
				case 2:
					i1, e1 := os.Stat(l)
					i2, e2 := Stat(l)
					if errClass(e1) != errClass(e2) || (e1 == nil && (i1.IsDir() != i2.IsDir() || (!i1.IsDir() && i1.Size() != i2.Size()))) {
						fail(step, "stat "+l, errClass(e1), errClass(e2))
					}
				case 3:
					i1, e1 := os.Lstat(l)
					i2, e2 := Lstat(l)
					if errClass(e1) != errClass(e2) || (e1 == nil && i1.Mode()&fs.ModeSymlink != i2.Mode()&fs.ModeSymlink) {
						fail(step, "lstat "+l, errClass(e1), errClass(e2))
					}
				case 4:
					fl := flagSets[rng.Intn(len(flagSets))]
					r, e1 := os.OpenFile(l, fl, 0o666)
					v, e2 := OpenFile(l, fl, 0o666)
					if errClass(e1) != errClass(e2) {
						fail(step, fmt.Sprintf("open-through-link %s %#x", l, fl), errClass(e1), errClass(e2))
					}
					if e1 == nil && e2 == nil {
						handles = append(handles, pair{r, v, fl&(os.O_WRONLY|os.O_RDWR) != 0, fl&os.O_APPEND != 0})
					} else if r != nil {
						r.Close()
					}
				case 5:
					data := []byte("via-link")
					e1 := os.WriteFile(l, data, 0o666)
					e2 := WriteFile(l, data, 0o666)
					if errClass(e1) != errClass(e2) {
						fail(step, "writefile-through-link "+l, errClass(e1), errClass(e2))
					}
				case 6:
					e1 := os.Remove(l)
					e2 := Remove(l)
					if errClass(e1) != errClass(e2) {
						fail(step, "remove-link "+l, errClass(e1), errClass(e2))
					}
				}
			case 15:
				q := root + "/" + names[rng.Intn(len(names))]
				// rename of regular files onto a fresh name in an existing directory
				i1, err1 := os.Stat(p)
				_, err2 := os.Stat(q)
				pi, err3 := os.Stat(filepath.Dir(q))
				if err1 == nil && !i1.IsDir() && err2 != nil && err3 == nil && pi.IsDir() {
					e1 := os.Rename(p, q)
					e2 := Rename(p, q)
					if errClass(e1) != errClass(e2) {
						fail(step, "rename "+p+" "+q, errClass(e1), errClass(e2))
					}
				}
			case 11:
				d1, e1 := os.ReadDir(p)
				d2, e2 := ReadDir(p)
				if (e1 == nil) != (e2 == nil) {
					// ReadDir of a regular file: error class differs in wording only
					if !(e1 != nil && e2 != nil) {
						fail(step, "readdir "+p, errClass(e1), errClass(e2))
					}
				} else if e1 == nil {
					var n1, n2 []string
					for _, d := range d1 {
						n1 = append(n1, d.Name())
					}
					for _, d := range d2 {
						n2 = append(n2, d.Name())
					}
					if strings.Join(n1, ",") != strings.Join(n2, ",") {
						fail(step, "readdir "+p, strings.Join(n1, ","), strings.Join(n2, ","))
					}
				}
			}
		}
		if a, b := dumpReal(root), dumpModel(m, root); a != b {
			fail(99, "final tree", a, b)
		}
		for _, h := range handles {
			h.r.Close()
		}
	}
	fmt.Printf("CONFORM sequences=%d ops=%d mismatches=%d\n", nseq, ops, mismatches)
}
