//go:build verif

// Package vfs is the file-system, clock and hash model that replaces the
// os / time / crypto/sha256 calls of the code under test during symbolic
// execution (the executor redirects the calls listed in Stubs to the
// functions of this package). File contents and times may be symbolic;
// paths of existing nodes are concrete or symbolic strings compared by
// value. Every operation is atomic; faults, short transfers and a crash
// point are injected on request.
package vfs

import (
	"hash"
	"io"
	"io/fs"
	"os"
	"strings"
	"syscall"
	"time"

	rt "github.com/rogpeppe/go-internal/internal/verifrt"
)

type Node struct {
	Dir   bool
	Data  []byte
	Mtime int64 // seconds
	Mode  fs.FileMode
	Link  string // non-empty: a symbolic link to this absolute path (only as the last path component)
}

type handle struct {
	path    string
	node    *Node
	off     int64
	flag    int
	closed  bool
	dirRead bool
	id      int
}

// FS is one file-system state.
type FS struct {
	Nodes map[string]*Node

	// instrumentation
	Ops      int      // file operations performed so far
	Log      []string // operation trace: "op path"
	FailAt   int      // operation index that fails (-1: none)
	FailErr  error
	FailOp   string // every operation with this name fails (e.g. "truncate")
	CrashAt  int  // after this many operations nothing is mutated any more (-1: none)
	Short    bool // reads/writes may transfer fewer bytes than asked
	ShortOnFail bool // a failing write may have written any prefix
	Failed   bool // the injected failure has happened
	Mutated  []string
	NowSec   int64 // clock (seconds); NowFn overrides
	NowFn    func() int64
	Env      map[string]string
	TempSeq  int
	handles  map[*os.File]*handle
	nextFD   int
	FlockFn  func(fd int, how int) error
	Flocks   []FlockRec
	OnMutate func(fsys *FS, op, path string) // called after every mutation (snapshots)
	BeforeOp func(fsys *FS, op, path string) // called before every operation (observer scheduling)
	Torn     bool                            // a write of several bytes may become visible in two steps
}

var Cur *FS

func New() *FS {
	f := &FS{Nodes: map[string]*Node{}, FailAt: -1, CrashAt: -1, handles: map[*os.File]*handle{}, Env: map[string]string{}, nextFD: 3}
	f.Nodes["/"] = &Node{Dir: true, Mode: fs.ModeDir | 0o777}
	Cur = f
	return f
}

// ---- helpers for harnesses ----

func (f *FS) MkdirAllP(path string) {
	parts := strings.Split(strings.Trim(path, "/"), "/")
	cur := ""
	for _, p := range parts {
		if p == "" {
			continue
		}
		cur += "/" + p
		if f.Nodes[cur] == nil {
			f.Nodes[cur] = &Node{Dir: true, Mode: fs.ModeDir | 0o777}
		}
	}
}

func (f *FS) PutFile(path string, data []byte, mtime int64) {
	f.MkdirAllP(parent(path))
	f.Nodes[path] = &Node{Data: data, Mtime: mtime, Mode: 0o666}
}

func (f *FS) File(path string) *Node { return f.Nodes[path] }

func (f *FS) Exists(path string) bool { return f.Nodes[path] != nil }

// Clone copies the state (contents copied, handles shared by path).
func (f *FS) Clone() *FS {
	g := &FS{Nodes: make(map[string]*Node, len(f.Nodes)), FailAt: -1, CrashAt: -1, handles: map[*os.File]*handle{}, Env: f.Env, NowSec: f.NowSec, NowFn: f.NowFn, nextFD: 100}
	for k, n := range f.Nodes {
		c := *n
		c.Data = append([]byte(nil), n.Data...)
		g.Nodes[k] = &c
	}
	return g
}

func parent(path string) string {
	i := strings.LastIndex(path, "/")
	if i <= 0 {
		return "/"
	}
	return path[:i]
}

func base(path string) string {
	return path[strings.LastIndex(path, "/")+1:]
}

// missing returns the errno for a path that does not exist: ENOTDIR when
// one of its ancestors exists and is not a directory, else ENOENT.
func (f *FS) missing(path string) error {
	for p := parent(path); p != "/" && p != ""; p = parent(p) {
		if n := f.Nodes[p]; n != nil {
			if !n.Dir {
				return syscall.ENOTDIR
			}
			break
		}
	}
	return syscall.ENOENT
}

// follow resolves a symbolic link in the last component (as stat/open do).
func (f *FS) follow(path string) string {
	for i := 0; i < 8; i++ {
		n := f.Nodes[path]
		if n == nil || n.Link == "" {
			return path
		}
		path = n.Link
	}
	return path
}

// PutSymlink places a symbolic link (harness set-up).
func (f *FS) PutSymlink(path, target string) {
	f.MkdirAllP(parent(path))
	f.Nodes[path] = &Node{Link: target, Mode: fs.ModeSymlink | 0o777, Mtime: 1}
}

func pathErr(op, path string, err error) error {
	return &fs.PathError{Op: op, Path: path, Err: err}
}

// step accounts for one file operation; it returns an injected error, and
// tells whether mutations are still allowed (false after the crash point).
func (f *FS) step(op, path string) (err error, live bool) {
	if f.BeforeOp != nil {
		f.BeforeOp(f, op, path)
	}
	idx := f.Ops
	f.Ops++
	f.Log = append(f.Log, op+" "+path)
	live = f.CrashAt < 0 || idx < f.CrashAt
	if idx == f.FailAt || (f.FailOp != "" && op == f.FailOp) {
		f.Failed = true
		e := f.FailErr
		if e == nil {
			e = syscall.EIO
		}
		return pathErr(op, path, e), live
	}
	return nil, live
}

func (f *FS) mutated(op, path string) {
	f.Mutated = append(f.Mutated, op+" "+path)
	if f.OnMutate != nil {
		f.OnMutate(f, op, path)
	}
}

func (f *FS) now() int64 {
	if f.NowFn != nil {
		return f.NowFn()
	}
	return f.NowSec
}

// Rebind makes every open handle refer to the node its path names in the
// current node table (used when an observer's view moves to a later snapshot).
func (f *FS) Rebind() {
	for _, h := range f.handles {
		if n := f.Nodes[h.path]; n != nil {
			h.node = n
		}
	}
}

// ---- FileInfo ----

type fileInfo struct {
	name  string
	size  int64
	mode  fs.FileMode
	mtime int64
	dir   bool
}

func (i *fileInfo) Name() string       { return i.name }
func (i *fileInfo) Size() int64        { return i.size }
func (i *fileInfo) Mode() fs.FileMode  { return i.mode }
func (i *fileInfo) ModTime() time.Time { return time.Unix(i.mtime, 0) }
func (i *fileInfo) IsDir() bool        { return i.dir }
func (i *fileInfo) Sys() any           { return nil }

func infoOf(path string, n *Node) fs.FileInfo {
	return &fileInfo{name: base(path), size: int64(len(n.Data)), mode: n.Mode, mtime: n.Mtime, dir: n.Dir}
}

type dirEntry struct{ info *fileInfo }

func (d dirEntry) Name() string               { return d.info.name }
func (d dirEntry) IsDir() bool                { return d.info.dir }
func (d dirEntry) Type() fs.FileMode          { return d.info.mode.Type() }
func (d dirEntry) Info() (fs.FileInfo, error) { return d.info, nil }

// ---- package os ----

func Stat(name string) (fs.FileInfo, error) {
	f := Cur
	if err, _ := f.step("stat", name); err != nil {
		return nil, err
	}
	n := f.Nodes[f.follow(name)]
	if n == nil || n.Link != "" {
		return nil, pathErr("stat", name, f.missing(f.follow(name)))
	}
	return infoOf(name, n), nil
}

// Lstat does not follow a symbolic link in the last component.
func Lstat(name string) (fs.FileInfo, error) {
	f := Cur
	if err, _ := f.step("lstat", name); err != nil {
		return nil, err
	}
	n := f.Nodes[name]
	if n == nil {
		return nil, pathErr("lstat", name, f.missing(name))
	}
	return infoOf(name, n), nil
}

func OpenFile(name string, flag int, perm fs.FileMode) (*os.File, error) {
	f := Cur
	err, live := f.step("open", name)
	if err != nil {
		return nil, err
	}
	if ln := f.Nodes[name]; ln != nil && ln.Link != "" {
		// O_CREATE|O_EXCL never follows a link; everything else opens (or creates) the target
		if flag&os.O_CREATE != 0 && flag&os.O_EXCL != 0 {
			return nil, pathErr("open", name, syscall.EEXIST)
		}
		name = f.follow(name)
		if t := f.Nodes[name]; t != nil && t.Link != "" {
			return nil, pathErr("open", name, syscall.ELOOP)
		}
	}
	n := f.Nodes[name]
	if n == nil {
		if flag&os.O_CREATE == 0 {
			return nil, pathErr("open", name, f.missing(name))
		}
		p := f.Nodes[parent(name)]
		if p == nil {
			return nil, pathErr("open", name, f.missing(name))
		}
		if !p.Dir {
			return nil, pathErr("open", name, syscall.ENOTDIR)
		}
		n = &Node{Mode: perm &^ 0o022, Mtime: f.now()}
		if live {
			f.Nodes[name] = n
			f.mutated("create", name)
		}
	} else {
		if flag&os.O_CREATE != 0 && flag&os.O_EXCL != 0 {
			return nil, pathErr("open", name, syscall.EEXIST)
		}
		if n.Dir && flag&(os.O_WRONLY|os.O_RDWR) != 0 {
			return nil, pathErr("open", name, syscall.EISDIR)
		}
		if flag&os.O_TRUNC != 0 && !n.Dir && live {
			n.Data = nil
			n.Mtime = f.now()
			f.mutated("trunc-on-open", name)
		}
	}
	file := new(os.File)
	h := &handle{path: name, node: n, flag: flag, id: f.nextFD}
	f.nextFD++
	f.handles[file] = h
	return file, nil
}

func Open(name string) (*os.File, error) { return OpenFile(name, os.O_RDONLY, 0) }

func Create(name string) (*os.File, error) {
	return OpenFile(name, os.O_RDWR|os.O_CREATE|os.O_TRUNC, 0o666)
}

func ReadFile(name string) ([]byte, error) {
	f := Cur
	if err, _ := f.step("readfile", name); err != nil {
		return nil, err
	}
	name = f.follow(name)
	n := f.Nodes[name]
	if n == nil {
		return nil, pathErr("open", name, f.missing(name))
	}
	if n.Dir {
		return nil, pathErr("read", name, syscall.EISDIR)
	}
	return append([]byte{}, n.Data...), nil
}

func WriteFile(name string, data []byte, perm fs.FileMode) error {
	file, err := OpenFile(name, os.O_WRONLY|os.O_CREATE|os.O_TRUNC, perm)
	if err != nil {
		return err
	}
	_, err = FileWrite(file, data)
	if err1 := FileClose(file); err1 != nil && err == nil {
		err = err1
	}
	return err
}

func Remove(name string) error {
	f := Cur
	err, live := f.step("remove", name)
	if err != nil {
		return err
	}
	n := f.Nodes[name]
	if n == nil {
		return pathErr("remove", name, f.missing(name))
	}
	if n.Dir {
		for k := range f.Nodes {
			if k != name && parent(k) == name {
				return pathErr("remove", name, syscall.ENOTEMPTY)
			}
		}
	}
	if p := f.Nodes[parent(name)]; p != nil && p.Mode&0o200 == 0 {
		return pathErr("remove", name, syscall.EACCES)
	}
	if live {
		delete(f.Nodes, name)
		f.mutated("remove", name)
	}
	return nil
}

func RemoveAll(name string) error {
	f := Cur
	err, live := f.step("removeall", name)
	if err != nil {
		return err
	}
	if f.Nodes[name] == nil && f.missing(name) == syscall.ENOTDIR {
		return pathErr("unlinkat", name, syscall.ENOTDIR)
	}
	if !live {
		return nil
	}
	var victims []string
	for k := range f.Nodes {
		if k == name || strings.HasPrefix(k, name+"/") {
			victims = append(victims, k)
		}
	}
	// entries of a directory without write permission cannot be unlinked
	for _, k := range victims {
		if k == name {
			continue
		}
		if p := f.Nodes[parent(k)]; p != nil && p.Mode&0o200 == 0 {
			return pathErr("unlinkat", k, syscall.EACCES)
		}
	}
	for _, k := range victims {
		delete(f.Nodes, k)
	}
	if len(victims) > 0 {
		f.mutated("removeall", name)
	}
	return nil
}

func Rename(oldp, newp string) error {
	f := Cur
	err, live := f.step("rename", oldp)
	if err != nil {
		return err
	}
	n := f.Nodes[oldp]
	if n == nil {
		return &os.LinkError{Op: "rename", Old: oldp, New: newp, Err: syscall.ENOENT}
	}
	if live {
		delete(f.Nodes, oldp)
		f.Nodes[newp] = n
		f.mutated("rename", newp)
	}
	return nil
}

func Mkdir(name string, perm fs.FileMode) error {
	f := Cur
	err, live := f.step("mkdir", name)
	if err != nil {
		return err
	}
	if f.Nodes[name] != nil {
		return pathErr("mkdir", name, syscall.EEXIST)
	}
	p := f.Nodes[parent(name)]
	if p == nil {
		return pathErr("mkdir", name, f.missing(name))
	}
	if !p.Dir {
		return pathErr("mkdir", name, syscall.ENOTDIR)
	}
	if live {
		f.Nodes[name] = &Node{Dir: true, Mode: fs.ModeDir | perm, Mtime: f.now()}
		f.mutated("mkdir", name)
	}
	return nil
}

func MkdirAll(path string, perm fs.FileMode) error {
	f := Cur
	err, live := f.step("mkdirall", path)
	if err != nil {
		return err
	}
	if n := f.Nodes[path]; n != nil {
		if n.Dir {
			return nil
		}
		return pathErr("mkdir", path, syscall.ENOTDIR)
	}
	// every existing ancestor must be a directory
	parts := strings.Split(strings.Trim(path, "/"), "/")
	cur := ""
	for _, p := range parts {
		if p == "" {
			continue
		}
		cur += "/" + p
		n := f.Nodes[cur]
		if n != nil && !n.Dir {
			return pathErr("mkdir", cur, syscall.ENOTDIR)
		}
		if n == nil && live {
			f.Nodes[cur] = &Node{Dir: true, Mode: fs.ModeDir | perm, Mtime: f.now()}
			f.mutated("mkdir", cur)
		}
	}
	return nil
}

func MkdirTemp(dir, pattern string) (string, error) {
	f := Cur
	if dir == "" {
		dir = "/tmp"
	}
	f.TempSeq++
	name := dir + "/" + strings.Replace(pattern, "*", "", 1) + string(rune('0'+f.TempSeq))
	f.MkdirAllP(dir)
	if err := Mkdir(name, 0o700); err != nil {
		return "", err
	}
	return name, nil
}

func Chtimes(name string, atime, mtime time.Time) error {
	f := Cur
	err, live := f.step("chtimes", name)
	if err != nil {
		return err
	}
	n := f.Nodes[name]
	if n == nil {
		return pathErr("chtimes", name, syscall.ENOENT)
	}
	if live {
		n.Mtime = mtime.Unix()
		f.mutated("chtimes", name)
	}
	return nil
}

func Chmod(name string, mode fs.FileMode) error {
	f := Cur
	err, live := f.step("chmod", name)
	if err != nil {
		return err
	}
	n := f.Nodes[name]
	if n == nil {
		return pathErr("chmod", name, syscall.ENOENT)
	}
	if live {
		n.Mode = n.Mode&fs.ModeDir | mode.Perm()
		f.mutated("chmod", name)
	}
	return nil
}

func ReadDir(name string) ([]fs.DirEntry, error) {
	f := Cur
	if err, _ := f.step("readdir", name); err != nil {
		return nil, err
	}
	n := f.Nodes[name]
	if n == nil {
		return nil, pathErr("open", name, f.missing(name))
	}
	if !n.Dir {
		return nil, pathErr("readdirent", name, syscall.ENOTDIR)
	}
	var out []fs.DirEntry
	for _, k := range f.children(name) {
		out = append(out, dirEntry{infoOf(k, f.Nodes[k]).(*fileInfo)})
	}
	return out, nil
}

// children lists the direct children of dir in sorted order.
func (f *FS) children(dir string) []string {
	var ks []string
	for k := range f.Nodes {
		if k != dir && parent(k) == dir {
			ks = append(ks, k)
		}
	}
	// insertion sort (sort package avoided to keep the model small)
	for i := 1; i < len(ks); i++ {
		for j := i; j > 0 && ks[j] < ks[j-1]; j-- {
			ks[j], ks[j-1] = ks[j-1], ks[j]
		}
	}
	return ks
}

func Getenv(key string) string {
	if Cur == nil {
		return ""
	}
	return Cur.Env[key]
}
func LookupEnv(key string) (string, bool) {
	v, ok := Cur.Env[key]
	return v, ok
}
func Environ() []string {
	var out []string
	for k, v := range Cur.Env {
		out = append(out, k+"="+v)
	}
	return out
}

// ---- *os.File ----

func (f *FS) h(file *os.File, op string) (*handle, error) {
	if file == nil {
		return nil, os.ErrInvalid
	}
	h := f.handles[file]
	if h == nil {
		return nil, pathErr(op, "?", os.ErrInvalid)
	}
	if h.closed {
		return nil, pathErr(op, h.path, os.ErrClosed)
	}
	return h, nil
}

// prefixLen picks the length of the prefix a failing write of n bytes has
// written: any length for short buffers, representative lengths (field
// boundaries of a cache index entry among them) for long ones.
func prefixLen(n int) int {
	if n <= 8 {
		return rt.IntRange(0, n-1)
	}
	cands := []int{0, 1, 3, 67, 68, 100, 132, 133, 153, 154, 174, n - 1}
	var ok []int
	for _, c := range cands {
		if c < n {
			ok = append(ok, c)
		}
	}
	return ok[rt.IntRange(0, len(ok)-1)]
}

// shortN picks how many of n bytes are transferred.
func (f *FS) shortN(n int) int {
	if !f.Short || n <= 1 {
		return n
	}
	return rt.IntRange(1, n)
}

func FileRead(file *os.File, p []byte) (int, error) {
	f := Cur
	h, err := f.h(file, "read")
	if err != nil {
		return 0, err
	}
	if err, _ := f.step("read", h.path); err != nil {
		return 0, err
	}
	if h.node.Dir {
		return 0, pathErr("read", h.path, syscall.EISDIR)
	}
	if h.flag&(os.O_WRONLY|os.O_RDWR) == os.O_WRONLY {
		return 0, pathErr("read", h.path, syscall.EBADF)
	}
	if len(p) == 0 {
		return 0, nil
	}
	if h.off >= int64(len(h.node.Data)) {
		return 0, io.EOF
	}
	n := copy(p, h.node.Data[h.off:])
	n = f.shortN(n)
	h.off += int64(n)
	return n, nil
}

func FileReadAt(file *os.File, p []byte, off int64) (int, error) {
	f := Cur
	h, err := f.h(file, "read")
	if err != nil {
		return 0, err
	}
	if err, _ := f.step("pread", h.path); err != nil {
		return 0, err
	}
	if off >= int64(len(h.node.Data)) {
		return 0, io.EOF
	}
	n := copy(p, h.node.Data[off:])
	if n < len(p) {
		return n, io.EOF
	}
	return n, nil
}

func (f *FS) writeAt(h *handle, p []byte, off int64, live bool, op string) int {
	n := f.shortN(len(p))
	if !live {
		return n
	}
	end := off + int64(n)
	if gap := end - int64(len(h.node.Data)); gap > 0 {
		h.node.Data = append(h.node.Data, make([]byte, gap)...)
	}
	if f.Torn && n > 1 {
		// other processes may observe the write half done, at any byte
		// (representative offsets for long buffers)
		k := prefixLen(n)
		if k > 0 {
			copy(h.node.Data[off:off+int64(k)], p[:k])
			f.mutated(op+"-torn", h.path)
		}
	}
	copy(h.node.Data[off:end], p[:n])
	h.node.Mtime = f.now()
	f.mutated(op, h.path)
	return n
}

func FileWrite(file *os.File, p []byte) (int, error) {
	f := Cur
	h, err := f.h(file, "write")
	if err != nil {
		return 0, err
	}
	err, live := f.step("write", h.path)
	if err != nil {
		// a failing write may have written a prefix
		if f.ShortOnFail && len(p) > 0 {
			k := prefixLen(len(p))
			if k > 0 {
				f.writeAt(h, p[:k], h.off, live, "write")
				h.off += int64(k)
			}
			return k, err
		}
		return 0, err
	}
	if h.flag&(os.O_WRONLY|os.O_RDWR) == 0 {
		return 0, pathErr("write", h.path, syscall.EBADF)
	}
	if h.flag&os.O_APPEND != 0 {
		h.off = int64(len(h.node.Data))
	}
	n := f.writeAt(h, p, h.off, live, "write")
	h.off += int64(n)
	if n < len(p) {
		return n, io.ErrShortWrite
	}
	return n, nil
}

func FileWriteString(file *os.File, s string) (int, error) { return FileWrite(file, []byte(s)) }

func FileWriteAt(file *os.File, p []byte, off int64) (int, error) {
	f := Cur
	h, err := f.h(file, "write")
	if err != nil {
		return 0, err
	}
	err, live := f.step("pwrite", h.path)
	if err != nil {
		if f.ShortOnFail && len(p) > 0 {
			k := prefixLen(len(p))
			if k > 0 {
				f.writeAt(h, p[:k], off, live, "pwrite")
			}
			return k, err
		}
		return 0, err
	}
	n := f.writeAt(h, p, off, live, "pwrite")
	if n < len(p) {
		return n, io.ErrShortWrite
	}
	return n, nil
}

func FileSeek(file *os.File, offset int64, whence int) (int64, error) {
	f := Cur
	h, err := f.h(file, "seek")
	if err != nil {
		return 0, err
	}
	if err, _ := f.step("seek", h.path); err != nil {
		return 0, err
	}
	switch whence {
	case io.SeekStart:
		h.off = offset
	case io.SeekCurrent:
		h.off += offset
	case io.SeekEnd:
		h.off = int64(len(h.node.Data)) + offset
	}
	return h.off, nil
}

func FileTruncate(file *os.File, size int64) error {
	f := Cur
	h, err := f.h(file, "truncate")
	if err != nil {
		return err
	}
	err, live := f.step("truncate", h.path)
	if err != nil {
		return err
	}
	if !live {
		return nil
	}
	if size < int64(len(h.node.Data)) {
		h.node.Data = h.node.Data[:size]
	} else {
		for int64(len(h.node.Data)) < size {
			h.node.Data = append(h.node.Data, 0)
		}
	}
	h.node.Mtime = f.now()
	f.mutated("truncate", h.path)
	return nil
}

func FileClose(file *os.File) error {
	f := Cur
	if file == nil {
		return os.ErrInvalid
	}
	h := f.handles[file]
	if h == nil {
		return os.ErrInvalid
	}
	if h.closed {
		return pathErr("close", h.path, os.ErrClosed)
	}
	err, _ := f.step("close", h.path)
	h.closed = true // the descriptor is gone even when close reports an error
	return err
}

func FileStat(file *os.File) (fs.FileInfo, error) {
	f := Cur
	h, err := f.h(file, "stat")
	if err != nil {
		return nil, err
	}
	if err, _ := f.step("fstat", h.path); err != nil {
		return nil, err
	}
	return infoOf(h.path, h.node), nil
}

func FileName(file *os.File) string {
	if h := Cur.handles[file]; h != nil {
		return h.path
	}
	return ""
}

func FileFd(file *os.File) uintptr {
	if h := Cur.handles[file]; h != nil {
		return uintptr(h.id)
	}
	return ^uintptr(0)
}

func FileSync(file *os.File) error { return nil }

func FileReaddirnames(file *os.File, n int) ([]string, error) {
	f := Cur
	h, err := f.h(file, "readdir")
	if err != nil {
		return nil, err
	}
	if err, _ := f.step("readdirnames", h.path); err != nil {
		return nil, err
	}
	if h.dirRead {
		if n > 0 {
			return nil, io.EOF
		}
		return nil, nil
	}
	h.dirRead = true
	var names []string
	for _, k := range f.children(h.path) {
		names = append(names, base(k))
	}
	return names, nil
}

// FileReadFrom / FileWriteTo: what io.Copy uses when one side is a file.
func FileReadFrom(file *os.File, r io.Reader) (int64, error) {
	var total int64
	buf := make([]byte, 64)
	for {
		n, err := r.Read(buf)
		if n > 0 {
			w, werr := FileWrite(file, buf[:n])
			total += int64(w)
			if werr != nil {
				return total, werr
			}
		}
		if err == io.EOF {
			return total, nil
		}
		if err != nil {
			return total, err
		}
	}
}

func FileWriteTo(file *os.File, w io.Writer) (int64, error) {
	var total int64
	buf := make([]byte, 64)
	for {
		n, err := FileRead(file, buf)
		if n > 0 {
			m, werr := w.Write(buf[:n])
			total += int64(m)
			if werr != nil {
				return total, werr
			}
		}
		if err == io.EOF {
			return total, nil
		}
		if err != nil {
			return total, err
		}
	}
}

func FileReadDir(file *os.File, n int) ([]fs.DirEntry, error) {
	f := Cur
	h, err := f.h(file, "readdir")
	if err != nil {
		return nil, err
	}
	if err, _ := f.step("readdir", h.path); err != nil {
		return nil, err
	}
	if h.dirRead {
		if n > 0 {
			return nil, io.EOF
		}
		return nil, nil
	}
	h.dirRead = true
	var out []fs.DirEntry
	for _, k := range f.children(h.path) {
		out = append(out, dirEntry{infoOf(k, f.Nodes[k]).(*fileInfo)})
	}
	return out, nil
}

func EvalSymlinks(path string) (string, error) {
	if Cur.Nodes[path] == nil {
		return "", pathErr("lstat", path, syscall.ENOENT)
	}
	return path, nil
}

func Symlink(oldname, newname string) error {
	f := Cur
	err, live := f.step("symlink", newname)
	if err != nil {
		return err
	}
	if f.Nodes[newname] != nil {
		return &os.LinkError{Op: "symlink", Old: oldname, New: newname, Err: syscall.EEXIST}
	}
	p := f.Nodes[parent(newname)]
	if p == nil || !p.Dir {
		return &os.LinkError{Op: "symlink", Old: oldname, New: newname, Err: f.missing(newname)}
	}
	if !strings.HasPrefix(oldname, "/") {
		oldname = parent(newname) + "/" + oldname // (only plain relative names: no ".." resolution)
	}
	if live {
		f.Nodes[newname] = &Node{Link: oldname, Mode: fs.ModeSymlink | 0o777, Mtime: f.now()}
		f.mutated("symlink", newname)
	}
	return nil
}

func Getwd() (string, error) { return "/", nil }

// ---- clock ----

func Now() time.Time {
	if Cur == nil {
		return time.Unix(1700000000, 0)
	}
	return time.Unix(Cur.now(), 0)
}
func Since(t time.Time) time.Duration { return Now().Sub(t) }
func Until(t time.Time) time.Duration {
	if UntilOverride != nil {
		return UntilOverride(t)
	}
	return t.Sub(Now())
}

// UntilOverride, when set by a harness, replaces the clock difference of
// time.Until by an arbitrary (symbolic) duration.
var UntilOverride func(time.Time) time.Duration

// ---- SHA-256 ----

type modelHash struct{ buf []byte }

func (h *modelHash) Write(p []byte) (int, error) { h.buf = append(h.buf, p...); return len(p), nil }
func (h *modelHash) Sum(b []byte) []byte {
	d := rt.Hash(h.buf)
	return append(b, d[:]...)
}
func (h *modelHash) Reset()         { h.buf = nil }
func (h *modelHash) Size() int      { return 32 }
func (h *modelHash) BlockSize() int { return 64 }

func NewSHA256() hash.Hash      { return &modelHash{} }
func Sum256(b []byte) [32]byte { return rt.Hash(b) }

// ---- flock ----

type FlockRec struct {
	FD, How int
	Err     error
	LogPos  int // len(FS.Log) when the call was made
}

func Flock(fd int, how int) error {
	f := Cur
	var err error
	if f.FlockFn != nil {
		err = f.FlockFn(fd, how)
	}
	f.Flocks = append(f.Flocks, FlockRec{FD: fd, How: how, Err: err, LogPos: len(f.Log)})
	return err
}

// OpenHandles counts the descriptors currently open on path.
func (f *FS) OpenHandles(path string) int {
	n := 0
	for _, h := range f.handles {
		if h.path == path && !h.closed {
			n++
		}
	}
	return n
}

// FDOf returns the descriptor number behind an *os.File (-1 if unknown).
func (f *FS) FDOf(file *os.File) int {
	if h := f.handles[file]; h != nil {
		return h.id
	}
	return -1
}

// FDClosed reports whether descriptor fd has been closed.
func (f *FS) FDClosed(fd int) bool {
	for _, h := range f.handles {
		if h.id == fd {
			return h.closed
		}
	}
	return false
}

// LastFD returns the most recently allocated descriptor number.
func (f *FS) LastFD() int { return f.nextFD - 1 }

// Stubs is the redirection table used by harness packages:
//
//	var VerifStubs = vfs.Stubs
var Stubs = map[string]any{
	"stub:os.Stat":                    Stat,
	"stub:os.Lstat":                   Lstat,
	"stub:os.Open":                    Open,
	"stub:os.OpenFile":                OpenFile,
	"stub:os.Create":                  Create,
	"stub:os.ReadFile":                ReadFile,
	"stub:os.WriteFile":               WriteFile,
	"stub:os.Remove":                  Remove,
	"stub:os.RemoveAll":               RemoveAll,
	"stub:os.Rename":                  Rename,
	"stub:os.Mkdir":                   Mkdir,
	"stub:os.MkdirAll":                MkdirAll,
	"stub:os.MkdirTemp":               MkdirTemp,
	"stub:os.Chtimes":                 Chtimes,
	"stub:os.Chmod":                   Chmod,
	"stub:os.ReadDir":                 ReadDir,
	"stub:os.Getenv":                  Getenv,
	"stub:os.LookupEnv":               LookupEnv,
	"stub:os.Environ":                 Environ,
	"stub:(*os.File).Read":            FileRead,
	"stub:(*os.File).ReadAt":          FileReadAt,
	"stub:(*os.File).Write":           FileWrite,
	"stub:(*os.File).WriteString":     FileWriteString,
	"stub:(*os.File).WriteAt":         FileWriteAt,
	"stub:(*os.File).Seek":            FileSeek,
	"stub:(*os.File).Truncate":        FileTruncate,
	"stub:(*os.File).Close":           FileClose,
	"stub:(*os.File).Stat":            FileStat,
	"stub:(*os.File).Name":            FileName,
	"stub:(*os.File).Fd":              FileFd,
	"stub:(*os.File).Sync":            FileSync,
	"stub:(*os.File).Readdirnames":    FileReaddirnames,
	"stub:(*os.File).ReadDir":         FileReadDir,
	"stub:path/filepath.EvalSymlinks": EvalSymlinks,
	"stub:os.Symlink":                 Symlink,
	"stub:os.Getwd":                   Getwd,
	"stub:(*os.File).ReadFrom":        FileReadFrom,
	"stub:(*os.File).WriteTo":         FileWriteTo,
	"stub:time.Now":                   Now,
	"stub:time.Since":                 Since,
	"stub:time.Until":                 Until,
	"stub:crypto/sha256.New":          NewSHA256,
	"stub:crypto/sha256.Sum256":       Sum256,
	"stub:syscall.Flock":              Flock,
}
