//go:build verif

package lockedfile

import (
	"os"
	"strings"
	"syscall"

	rt "github.com/rogpeppe/go-internal/internal/verifrt"
	"github.com/rogpeppe/go-internal/internal/verifrt/vfs"
)

const vPath = "/d/f"

func vSetup(content []byte) *vfs.FS {
	fsys := vfs.New()
	fsys.NowSec = 1700000000
	fsys.MkdirAllP("/d")
	if content != nil {
		fsys.PutFile(vPath, content, 1700000000)
	}
	return fsys
}

// vFlockSchedule makes flock return up to R EINTRs, then success or (when
// fail is set) an arbitrary other errno.
func vFlockSchedule(fsys *vfs.FS, eintr int, fail bool) {
	calls := 0
	fsys.FlockFn = func(fd int, how int) error {
		calls++
		if calls <= eintr {
			return syscall.EINTR
		}
		if fail && how != syscall.LOCK_UN {
			return syscall.ENOLCK
		}
		return nil
	}
}

// vLogHasBefore reports whether an operation with the given prefix on the
// file occurs in the log before position pos.
func vLogHasBefore(fsys *vfs.FS, pos int, ops ...string) bool {
	for i := 0; i < pos && i < len(fsys.Log); i++ {
		for _, op := range ops {
			if fsys.Log[i] == op+" "+vPath {
				return true
			}
		}
	}
	return false
}

// VerifC06OpenFile: for every flag word with a valid access mode (all other
// bits free), every EINTR count and a possible flock failure: the lock
// requested is exclusive iff the access mode is O_WRONLY or O_RDWR, it is
// requested on the opened descriptor before any access to the contents, a
// non-nil *File is returned exactly when the lock was granted and it is
// still held; on failure the descriptor is closed.
func VerifC06OpenFile() {
	exists := rt.Bool()
	var fsys *vfs.FS
	if exists {
		fsys = vSetup([]byte("old"))
	} else {
		fsys = vSetup(nil)
	}
	flag := rt.Int()
	mode := flag & 3
	rt.Assume(mode != 3)
	// the remaining low bits are free; high bits (beyond the os.O_* flags
	// the model interprets) are kept clear
	rt.Assume(flag >= 0)
	rt.Assume(flag < 1<<21)
	eintr := rt.IntRange(0, rt.Param("R", 2))
	fail := rt.Bool()
	vFlockSchedule(fsys, eintr, fail)
	// the truncation under the lock may fail; for a file that is not a
	// regular file (a pipe, a device) that failure is ignored by design and
	// the File is returned, still holding its lock
	truncFails := rt.Bool()
	nonRegular := false
	if truncFails {
		fsys.FailOp = "truncate"
		if exists && rt.Bool() {
			nonRegular = true
			fsys.File(vPath).Mode |= os.ModeNamedPipe
			rt.Reach("non-regular-file")
		}
	}
	f, err := OpenFile(vPath, flag, 0o666)
	fsys.FailOp = ""
	if err != nil {
		rt.Assert(f == nil, "error-returns-nil-file")
		rt.Assert(fsys.OpenHandles(vPath) == 0, "descriptor-closed-on-error")
		rt.Reach("open-failed")
		if len(fsys.Flocks) > 0 {
			rt.Reach("lock-failed")
		}
		return
	}
	rt.Reach("opened")
	rt.Assert(f != nil, "success-returns-file")
	fd := fsys.FDOf(f.osFile.File)
	rt.Assert(len(fsys.Flocks) == eintr+1, "flock-retried-exactly-through-eintr")
	last := fsys.Flocks[len(fsys.Flocks)-1]
	rt.Assert(last.Err == nil, "returned-file-holds-granted-lock")
	rt.Assert(last.FD == fd, "lock-taken-on-the-opened-descriptor")
	want := syscall.LOCK_SH
	if mode == os.O_WRONLY || mode == os.O_RDWR {
		want = syscall.LOCK_EX
		rt.Reach("write-lock")
	} else {
		rt.Reach("read-lock")
	}
	for _, fl := range fsys.Flocks {
		rt.Assert(fl.How == want, "lock-mode-matches-access-mode")
		rt.Assert(fl.FD == fd, "every-flock-on-the-opened-descriptor")
	}
	// nothing touched the contents before the lock was granted
	rt.Assert(!vLogHasBefore(fsys, last.LogPos, "read", "write", "pwrite", "truncate"), "no-access-before-lock")
	for _, m := range fsys.Mutated {
		rt.Assert(!strings.HasPrefix(m, "trunc-on-open"), "no-truncate-at-open")
	}
	rt.Assert(!fsys.FDClosed(fd), "descriptor-open-while-held")
	if flag&os.O_TRUNC != 0 && !truncFails {
		rt.Assert(len(fsys.File(vPath).Data) == 0, "truncated-under-the-lock")
		rt.Reach("truncated")
	}
	if flag&os.O_TRUNC != 0 && truncFails {
		rt.Assert(nonRegular, "failed-truncate-of-regular-file-is-reported")
		rt.Reach("truncate-failure-ignored-for-non-regular-file")
	}
	// release
	nFl := len(fsys.Flocks)
	logPos := len(fsys.Log)
	cerr := f.Close()
	rt.Assert(cerr == nil, "close-succeeds")
	rt.Assert(len(fsys.Flocks) == nFl+1, "exactly-one-unlock")
	un := fsys.Flocks[len(fsys.Flocks)-1]
	rt.Assert(un.How == syscall.LOCK_UN && un.FD == fd, "unlock-on-same-descriptor")
	rt.Assert(un.LogPos == logPos, "unlock-strictly-before-close")
	rt.Assert(fsys.FDClosed(fd), "descriptor-closed-by-close")
	// second Close: error, no operation
	nFl, logPos = len(fsys.Flocks), len(fsys.Log)
	rt.Assert(f.Close() != nil, "second-close-reports-error")
	rt.Assert(len(fsys.Flocks) == nFl && len(fsys.Log) == logPos, "second-close-does-nothing")
}

// VerifC06API: which lock each entry point takes.
func VerifC06API() {
	fsys := vSetup([]byte("old"))
	api := rt.IntRange(0, 7)
	wantEX := true
	switch api {
	case 7:
		// the first open of the lock file fails (permission denied, or an I/O error): whatever Lock
		// does about it, a successful Lock means an exclusive lock, a failed one leaves nothing behind
		fsys.FailAt = fsys.Ops
		if rt.Bool() {
			fsys.FailErr = syscall.EACCES
		}
		mu := MutexAt(vPath)
		unlock, err := mu.Lock()
		if err == nil {
			held := 0
			for _, fl := range fsys.Flocks {
				if fl.How != syscall.LOCK_UN {
					held++
					rt.Assert(fl.How == syscall.LOCK_EX, "mutex-success-means-exclusive-lock")
				}
			}
			rt.Assert(held == 1, "mutex-success-holds-one-lock")
			unlock()
		} else {
			rt.Reach("mutex-open-fault-reported")
		}
		locks, unlocks := 0, 0
		for _, fl := range fsys.Flocks {
			if fl.How == syscall.LOCK_UN {
				unlocks++
			} else {
				locks++
			}
		}
		rt.Assert(locks == unlocks, "every-lock-released")
		rt.Assert(fsys.OpenHandles(vPath) == 0, "api-closes-descriptor")
		return
	case 0:
		f, err := Open(vPath)
		rt.Assert(err == nil, "open-ok")
		wantEX = false
		vHeldCheck(fsys, f, wantEX)
		f.Close()
	case 1:
		f, err := Create(vPath)
		rt.Assert(err == nil, "create-ok")
		vHeldCheck(fsys, f, wantEX)
		f.Close()
	case 2:
		f, err := Edit(vPath)
		rt.Assert(err == nil, "edit-ok")
		vHeldCheck(fsys, f, wantEX)
		f.Close()
	case 3:
		_, err := Read(vPath)
		rt.Assert(err == nil, "read-ok")
		wantEX = false
	case 4:
		err := Write(vPath, strings.NewReader("new"), 0o666)
		rt.Assert(err == nil, "write-ok")
	case 5:
		err := Transform(vPath, func(b []byte) ([]byte, error) { return append(b, 'x'), nil })
		rt.Assert(err == nil, "transform-ok")
	case 6:
		mu := MutexAt(vPath)
		unlock, err := mu.Lock()
		rt.Assert(err == nil, "mutex-lock-ok")
		rt.Assert(len(fsys.Flocks) == 1 && fsys.Flocks[0].How == syscall.LOCK_EX, "mutex-takes-exclusive-lock")
		rt.Assert(fsys.OpenHandles(vPath) == 1, "mutex-holds-descriptor")
		unlock()
		// the lock file stays: a waiter already holding a descriptor on it and a later caller
		// opening the path must meet on the same file
		rt.Assert(fsys.Exists(vPath), "mutex-unlock-leaves-the-lock-file")
		for _, l := range fsys.Log {
			rt.Assert(l != "remove "+vPath && !strings.HasPrefix(l, "rename "+vPath), "mutex-never-unlinks-the-lock-file")
		}
		rt.Reach("mutex")
	}
	rt.Assert(len(fsys.Flocks) == 2, "one-lock-one-unlock")
	want := syscall.LOCK_SH
	if wantEX {
		want = syscall.LOCK_EX
	}
	rt.Assert(fsys.Flocks[0].How == want, "api-lock-mode")
	rt.Assert(fsys.Flocks[1].How == syscall.LOCK_UN, "api-unlocks")
	rt.Assert(fsys.Flocks[0].FD == fsys.Flocks[1].FD, "api-unlocks-same-descriptor")
	rt.Assert(fsys.OpenHandles(vPath) == 0, "api-closes-descriptor")
	// all content accesses lie between the lock and the unlock
	for i, l := range fsys.Log {
		for _, op := range []string{"read", "write", "pwrite", "truncate"} {
			if l == op+" "+vPath {
				rt.Assert(i >= fsys.Flocks[0].LogPos && i < fsys.Flocks[1].LogPos, "accesses-inside-held-interval")
			}
		}
	}
	rt.Reach("api")
}

func vHeldCheck(fsys *vfs.FS, f *File, ex bool) {
	rt.Assert(f != nil, "file-returned")
	rt.Assert(fsys.OpenHandles(vPath) == 1, "descriptor-open-while-held")
}
