//go:build verif

package lockedfile

import (
	"bytes"
	"errors"
	"os"

	rt "github.com/rogpeppe/go-internal/internal/verifrt"
	"github.com/rogpeppe/go-internal/internal/verifrt/vfs"
)

func vBytes(max int) []byte { return rt.Bytes(rt.IntRange(0, max)) }

func vHolds(fsys *vfs.FS, want []byte, id string) {
	n := fsys.File(vPath)
	rt.Assert(n != nil, id+"-file-exists")
	if n == nil {
		return
	}
	rt.Assert(len(n.Data) == len(want), id+"-length")
	if len(n.Data) == len(want) {
		rt.Assert(rt.BytesEq(n.Data, want), id+"-bytes")
	}
}

// VerifC07Sequential: Read returns exactly the contents, under arbitrary
// short reads; Write and Transform leave exactly the new contents, for
// every old/new length relation.
func VerifC07Sequential() {
	L := rt.Param("L", 3)
	old := vBytes(L)
	fsys := vSetup(append([]byte{}, old...))
	switch rt.IntRange(0, 2) {
	case 0:
		fsys.Short = true // every read may return fewer bytes than asked
		got, err := Read(vPath)
		fsys.Short = false
		rt.Assert(err == nil, "read-ok")
		rt.Assert(len(got) == len(old), "read-complete-length")
		if len(got) == len(old) {
			rt.Assert(rt.BytesEq(got, old), "read-complete-bytes")
		}
		vHolds(fsys, old, "read-leaves-contents")
		rt.Reach("read")
	case 1:
		nw := vBytes(L)
		err := Write(vPath, bytes.NewReader(nw), 0o666)
		rt.Assert(err == nil, "write-ok")
		vHolds(fsys, nw, "write-publishes-new")
		rt.Reach("write")
	case 2:
		nw := vBytes(L)
		var seen []byte
		err := Transform(vPath, func(b []byte) ([]byte, error) {
			seen = append([]byte{}, b...)
			return nw, nil
		})
		rt.Assert(err == nil, "transform-ok")
		rt.Assert(len(seen) == len(old), "transform-sees-latest-length")
		if len(seen) == len(old) {
			rt.Assert(rt.BytesEq(seen, old), "transform-sees-latest-bytes")
		}
		vHolds(fsys, nw, "transform-publishes-new")
		if len(nw) > len(old) {
			rt.Reach("grow")
		} else if len(nw) < len(old) {
			rt.Reach("shrink")
		}
	}
	rt.Assert(fsys.OpenHandles(vPath) == 0, "no-descriptor-left-open")
}

var errVUser = errors.New("user function failed")

// VerifC07TransformFault: the user function fails, or one file operation
// inside Transform fails (a failing WriteAt may have written any prefix):
// Transform reports an error and the previous contents remain in place.
func VerifC07TransformFault() {
	L := rt.Param("L", 3)
	old := vBytes(L)
	nw := vBytes(L)
	fsys := vSetup(append([]byte{}, old...))
	// count the operations of an undisturbed Transform
	clone := fsys.Clone()
	vfs.Cur = clone
	Transform(vPath, func(b []byte) ([]byte, error) { return nw, nil })
	nops := clone.Ops
	var opNames []string
	opNames = append(opNames, clone.Log...)
	vfs.Cur = fsys

	userFails := rt.Bool()
	k := -1
	if !userFails {
		k = rt.IntRange(0, nops-1)
		fsys.FailAt = k
		fsys.ShortOnFail = true
	}
	err := Transform(vPath, func(b []byte) ([]byte, error) {
		if userFails {
			return nil, errVUser
		}
		return nw, nil
	})
	fsys.FailAt, fsys.ShortOnFail = -1, false
	if userFails {
		rt.Assert(err == errVUser, "user-error-returned")
		vHolds(fsys, old, "user-error-keeps-old")
		rt.Reach("user-fails")
		return
	}
	failed := opNames[k]
	rt.Assert(fsys.Failed, "fault-was-injected")
	switch {
	case failed == "close "+vPath:
		// not a write step: the new contents were already published
		rt.Reach("close-fails")
	default:
		rt.Assert(err != nil, "fault-reported")
		vHolds(fsys, old, "fault-keeps-old")
		if failed == "pwrite "+vPath {
			rt.Reach("write-step-fails")
		}
		if failed == "truncate "+vPath {
			rt.Reach("truncate-fails")
		}
	}
	rt.Assert(fsys.OpenHandles(vPath) == 0, "no-descriptor-left-open")
}

// VerifC07NothingBeforeLock: until the lock request has been issued, an
// operation must not have changed the file (another holder may still be
// reading it): the contents at the time of the first flock call are the old
// contents, for Write, Create, Transform and OpenFile with O_TRUNC.
func VerifC07NothingBeforeLock() {
	L := rt.Param("L", 3)
	old := rt.Bytes(rt.IntRange(1, L))
	fsys := vSetup(append([]byte{}, old...))
	var atLock []byte
	seen := false
	fsys.FlockFn = func(fd int, how int) error {
		if !seen {
			seen = true
			atLock = append([]byte{}, fsys.File(vPath).Data...)
		}
		return nil
	}
	switch rt.IntRange(0, 3) {
	case 0:
		rt.Assert(Write(vPath, bytes.NewReader([]byte("n")), 0o666) == nil, "write-ok")
		rt.Reach("write")
	case 1:
		f, err := Create(vPath)
		rt.Assert(err == nil, "create-ok")
		if err == nil {
			f.Close()
		}
		rt.Reach("create")
	case 2:
		err := Transform(vPath, func(b []byte) ([]byte, error) { return []byte("n"), nil })
		rt.Assert(err == nil, "transform-ok")
	case 3:
		f, err := OpenFile(vPath, os.O_WRONLY|os.O_TRUNC, 0o666)
		rt.Assert(err == nil, "openfile-ok")
		if err == nil {
			f.Close()
		}
	}
	rt.Assert(seen, "lock-requested")
	rt.Assert(len(atLock) == len(old), "contents-untouched-until-lock-requested-length")
	if len(atLock) == len(old) {
		rt.Assert(rt.BytesEq(atLock, old), "contents-untouched-until-lock-requested")
	}
}

// VerifC07ReadDuringWrite: a Read issued while another holder is in the
// middle of a Write or Transform (the file truncated, any proper prefix of
// the new contents in place). The reader's lock request is where it waits:
// the model lets the other holder finish there. Read must then return
// exactly the complete new contents, never the empty or partial
// intermediate state, and it must have asked for the lock.
func VerifC07ReadDuringWrite() {
	L := rt.Param("L", 3)
	nw := rt.Bytes(rt.IntRange(1, L))
	k := rt.IntRange(0, len(nw)-1)
	fsys := vSetup(append([]byte{}, nw[:k]...))
	fsys.Short = rt.Bool()
	requested := false
	fsys.FlockFn = func(fd int, how int) error {
		if !requested {
			requested = true
			fsys.File(vPath).Data = append([]byte{}, nw...)
		}
		return nil
	}
	if k == 0 {
		rt.Reach("truncated")
	} else {
		rt.Reach("partly-written")
	}
	got, err := Read(vPath)
	rt.Assert(err == nil, "read-ok")
	rt.Assert(requested, "read-asks-for-the-lock")
	rt.Assert(len(got) == len(nw), "read-never-returns-a-write-in-progress-length")
	if len(got) == len(nw) {
		rt.Assert(rt.BytesEq(got, nw), "read-never-returns-a-write-in-progress")
	}
	rt.Assert(fsys.OpenHandles(vPath) == 0, "no-descriptor-left-open")
}
