//go:build verif

package par

// Harness for the tsys bounded model checker (see /verif/tsys/bmc.py).
// The functions declared here without a meaningful body are interpreted
// by the checker: vParam* are configuration constants, vEdge/vInit/vPick
// are free (symbolic) choices fixed for a run, vBegin/vEnd/vReturned and
// the vC* recorders are atomic observers.

// ---- configuration and symbolic choices (bodies unused) ----

func vParamItems() int      { return 2 }
func vParamWorkers() int    { return 2 }
func vEdge(i, j int) bool   { return false } // processing item i adds item j
func vInit(j int) bool      { return true }  // item j is added before Do
func vBegin(i int)          {}               // f(item i) begins
func vEnd(i int)            {}               // f(item i) ends
func vMainReturned()        {}               // Do has returned
func vCallKind(g int) int   { return 0 }     // what goroutine g calls: 0 Do(k0) 1 Do(k1) 2 Get(k0) 3 Get(k1)
func vComputeBegin(k int) int { return 0 }   // f for key k begins; returns the invocation number
func vComputeEnd(k int)     {}
func vGotDo(g, k int, v any)  {}             // goroutine g's Do(k) returned v
func vGotGet(g, k int, v any) {}             // goroutine g's Get(k) returned v (nil allowed)
func vYield()               {}               // a scheduling point inside f
func vNilResult(k int) bool { return false } // the function for key k returns nil (solver's choice)

// ---- C09: par.Work ----

var vW Work

func vF(item any) {
	i := item.(int)
	vBegin(i)
	vYield() // f takes time: other goroutines may run while it is in progress
	n := vParamItems()
	for j := 0; j < n; j++ {
		if vEdge(i, j) {
			vW.Add(j)
		}
	}
	vEnd(i)
}

// VerifWorkMain is the main thread: initial adds, then Do.
func VerifWorkMain() {
	n := vParamItems()
	for j := 0; j < n; j++ {
		if vInit(j) {
			vW.Add(j)
		}
	}
	vW.Do(vParamWorkers(), vF)
	vMainReturned()
}

// ---- C10: par.Cache ----

var vC Cache

// VerifCacheThread is goroutine g: one call chosen by the checker.
func VerifCacheThread(g int) {
	switch vCallKind(g) {
	case 0:
		v := vC.Do(0, func() any { return vCompute(0) })
		vGotDo(g, 0, v)
	case 1:
		v := vC.Do(1, func() any { return vCompute(1) })
		vGotDo(g, 1, v)
	case 2:
		vGotGet(g, 0, vC.Get(0))
	case 3:
		vGotGet(g, 1, vC.Get(1))
	}
}

// vCompute is the function passed to Do: it takes time (a scheduling
// point inside) and returns a value identifying key and invocation.
func vCompute(k int) any {
	inv := vComputeBegin(k)
	vYield()
	vComputeEnd(k)
	if vNilResult(k) {
		return nil // a legitimate result: "computed, and the value is nil"
	}
	return k*8 + inv
}
