//go:build verif

package testscript

import (
	"errors"
	"strconv"
	"strings"

	rt "github.com/rogpeppe/go-internal/internal/verifrt"
)

// line shapes of the generated scripts
const (
	shProbe = iota
	shNegProbe
	shCondProbe
	shNotCondProbe
	shCondNegProbe
	shStop
	shNegStop
	shSkip
	shUnknown
	shCondAlone
	shBangAlone
	shPhase
	shBlank
	shBadCond
	shExists
	shNegExistsMissing
	shExistsMissing
	shCmp
	shNegCmp
	shMkdirCp
	shChmodTwo
	shTwoConds
	shGrep
	shNegGrep
	shGrepCount
	shExistsTwo
	shBuiltinCond
	shCd
	shNumShapes
)

// built-in conditions and whether they hold where the checks run (linux, gc, a go1.2x toolchain)
var vBuiltinConds = []struct {
	name  string
	holds bool
}{
	{"linux", true}, {"windows", false}, {"gc", true},
	{"go1.9", true}, {"go1.100", false}, {"go2.1", false},
}

// arguments of cd and whether they name a directory
var vCdTargets = []struct {
	arg   string
	isDir bool
}{
	{".", true}, {"$WORK", true}, {"a.txt", false}, {"nope", false},
}

type vLine struct {
	shape int
	cond  int // condition index for [c] shapes
	pol0, pol1 bool // shTwoConds: polarity of the two prefixes ([c0] / [!c0], [c1] / [!c1])
	neg  bool // shTwoConds: ! after the prefixes
}

// VerifC01Verdict: scripts of up to K lines over the shape menu; probe
// outcomes, condition values, file contents and Params flags are symbolic.
func VerifC01Verdict() {
	K := rt.IntRange(1, rt.Param("K", 2))
	maxShape := rt.Param("SHAPES", shNumShapes) - 1
	lines := make([]vLine, K)
	var sb strings.Builder
	for i := range lines {
		l := vLine{shape: rt.IntRange(0, maxShape)}
		p := "probe " + strconv.Itoa(i)
		switch l.shape {
		case shProbe:
			sb.WriteString(p)
		case shNegProbe:
			sb.WriteString("! " + p)
		case shCondProbe:
			l.cond = rt.IntRange(0, 1)
			sb.WriteString("[c" + strconv.Itoa(l.cond) + "] " + p)
		case shNotCondProbe:
			l.cond = rt.IntRange(0, 1)
			sb.WriteString("[!c" + strconv.Itoa(l.cond) + "] " + p)
		case shCondNegProbe:
			l.cond = rt.IntRange(0, 1)
			sb.WriteString("[c" + strconv.Itoa(l.cond) + "] ! " + p)
		case shStop:
			sb.WriteString("stop")
		case shNegStop:
			sb.WriteString("! stop")
		case shSkip:
			sb.WriteString("skip")
		case shUnknown:
			sb.WriteString("nosuchcmd x")
		case shCondAlone:
			sb.WriteString("[c0]")
		case shBangAlone:
			sb.WriteString("!")
		case shPhase:
			sb.WriteString("# phase")
		case shBlank:
			sb.WriteString("  ")
		case shBadCond:
			sb.WriteString("[cerr] " + p)
		case shExists:
			sb.WriteString("exists a.txt")
		case shNegExistsMissing:
			sb.WriteString("! exists nope.txt")
		case shExistsMissing:
			sb.WriteString("exists nope.txt")
		case shCmp:
			sb.WriteString("cmp a.txt b.txt")
		case shNegCmp:
			sb.WriteString("! cmp a.txt b.txt")
		case shMkdirCp:
			sb.WriteString("mkdir d" + strconv.Itoa(i))
		case shChmodTwo:
			sb.WriteString("chmod 600 a.txt b.txt")
		case shGrep:
			sb.WriteString("grep foo c.txt")
		case shNegGrep:
			sb.WriteString("! grep foo c.txt")
		case shBuiltinCond:
			// a built-in condition of either polarity guarding a probe
			l.cond = rt.IntRange(0, len(vBuiltinConds)-1)
			l.neg = rt.Bool()
			pre := "[" + vBuiltinConds[l.cond].name + "] "
			if l.neg {
				pre = "[!" + vBuiltinConds[l.cond].name + "] "
			}
			sb.WriteString(pre + p)
		case shExistsTwo:
			// exists / ! exists with two arguments: present or absent in each position
			l.cond = rt.IntRange(0, 3)
			l.neg = rt.Bool()
			pair := [][2]string{{"a.txt", "b.txt"}, {"a.txt", "nope.txt"}, {"nope.txt", "a.txt"}, {"nope.txt", "nope2.txt"}}[l.cond]
			pre := "exists "
			if l.neg {
				pre = "! exists "
			}
			sb.WriteString(pre + pair[0] + " " + pair[1])
		case shCd:
			// cd onto the work directory itself, a regular file or a missing name
			l.cond = rt.IntRange(0, 3)
			sb.WriteString("cd " + vCdTargets[l.cond].arg)
		case shGrepCount:
			l.cond = rt.IntRange(1, 2)
			sb.WriteString("grep -count=" + strconv.Itoa(l.cond) + " foo c.txt")
		case shTwoConds:
			l.pol0, l.pol1, l.neg = rt.Bool(), rt.Bool(), rt.Bool()
			pre := "[c0] "
			if !l.pol0 {
				pre = "[!c0] "
			}
			if l.pol1 {
				pre += "[c1] "
			} else {
				pre += "[!c1] "
			}
			if l.neg {
				pre += "! "
			}
			sb.WriteString(pre + p)
		}
		sb.WriteString("\n")
		lines[i] = l
	}
	// archive files with symbolic contents
	a := rt.Byte()
	b := rt.Byte()
	rt.Assume(a != '\n' && a != '\r' && a != '-')
	rt.Assume(b != '\n' && b != '\r' && b != '-')
	// c.txt: a solver-chosen number of lines matching "foo" among others
	nfoo := rt.IntRange(0, 3)
	ctxt := "bar\n" + strings.Repeat("a foo b\n", nfoo) + "baz\n"
	script := sb.String() + "-- a.txt --\n" + string([]byte{a}) + "\n-- b.txt --\n" + string([]byte{b}) + "\n-- c.txt --\n" + ctxt
	rt.Observe("script", sb.String())
	vNewFS([]byte(script))

	ok := make([]bool, K)
	for i := range ok {
		ok[i] = rt.Bool()
	}
	conds := []bool{rt.Bool(), rt.Bool()}
	called := make([]int, K)
	cont := rt.Bool()
	p := Params{
		Files:           []string{vScriptFile},
		ContinueOnError: cont,
		Cmds: map[string]func(ts *TestScript, neg bool, args []string){
			"probe": func(ts *TestScript, neg bool, args []string) {
				i, _ := strconv.Atoi(args[0])
				called[i]++
				if ok[i] == neg {
					ts.Fatalf("probe %d did not behave as demanded", i)
				}
			},
		},
		Condition: func(cond string) (bool, error) {
			switch cond {
			case "c0":
				return conds[0], nil
			case "c1":
				return conds[1], nil
			}
			return false, errors.New("unknown condition " + cond)
		},
	}
	root := &vT{name: "root"}
	RunT(root, p)
	rt.Assert(len(root.subs) == 1, "one-subtest-per-script")
	if len(root.subs) != 1 {
		return
	}
	t := root.subs[0]

	// ---- reference evaluation over the selectors ----
	verdict := "pass"
	firstFail := 0 // 1-based line number of the first offending line
	ran := make([]bool, K) // whether probe i may have been invoked
	stopped := false
	for i, l := range lines {
		if stopped {
			break
		}
		if verdict == "fail" && !cont {
			break
		}
		lineFails := false
		switch l.shape {
		case shProbe:
			ran[i] = true
			lineFails = !ok[i]
		case shNegProbe:
			ran[i] = true
			lineFails = ok[i]
		case shCondProbe:
			if conds[l.cond] {
				ran[i] = true
				lineFails = !ok[i]
			}
		case shNotCondProbe:
			if !conds[l.cond] {
				ran[i] = true
				lineFails = !ok[i]
			}
		case shCondNegProbe:
			if conds[l.cond] {
				ran[i] = true
				lineFails = ok[i]
			}
		case shTwoConds:
			if conds[0] == l.pol0 && conds[1] == l.pol1 {
				ran[i] = true
				lineFails = ok[i] == l.neg
			}
		case shStop:
			stopped = true
		case shSkip:
			if verdict != "fail" {
				verdict = "skip"
			}
			stopped = true
		case shNegStop, shUnknown, shCondAlone, shBangAlone, shBadCond, shExistsMissing:
			lineFails = true
		case shCmp:
			lineFails = a != b
		case shNegCmp:
			lineFails = a == b
		case shGrep:
			lineFails = nfoo == 0
		case shNegGrep:
			lineFails = nfoo > 0
		case shBuiltinCond:
			if vBuiltinConds[l.cond].holds != l.neg {
				ran[i] = true
				lineFails = !ok[i]
			}
		case shExistsTwo:
			present := [][2]bool{{true, true}, {true, false}, {false, true}, {false, false}}[l.cond]
			if l.neg {
				lineFails = present[0] || present[1] // every named file must be absent
			} else {
				lineFails = !present[0] || !present[1] // every named file must exist
			}
		case shCd:
			lineFails = !vCdTargets[l.cond].isDir
		case shGrepCount:
			// -count=N demands exactly N matches
			lineFails = nfoo != l.cond
		case shPhase, shBlank, shExists, shNegExistsMissing, shMkdirCp, shChmodTwo:
		}
		if lineFails && verdict != "fail" {
			verdict = "fail"
			firstFail = i + 1
		}
	}
	// a skip reached after an earlier failure under ContinueOnError: the
	// run has already failed
	switch verdict {
	case "pass":
		rt.Reach("pass")
		rt.Assert(!t.failed && !t.skipped, "verdict-pass")
	case "skip":
		rt.Reach("skip")
		rt.Assert(t.skipped && !t.failed, "verdict-skip")
	case "fail":
		rt.Reach("fail")
		rt.Assert(t.failed, "verdict-fail")
		want := "FAIL: " + vScriptFile + ":" + strconv.Itoa(firstFail) + ":"
		rt.Assert(strings.Contains(t.logText(), want), "log-names-first-offending-line")
		if cont {
			rt.Reach("continue-on-error")
		}
	}
	rt.Assert(root.failed == (verdict == "fail"), "parent-fails-iff-script-failed")
	for i := range lines {
		if ran[i] {
			rt.Assert(called[i] == 1, "probe-invoked-exactly-once")
		} else {
			rt.Assert(called[i] == 0, "no-effect-of-unreached-or-guarded-line")
		}
	}
}
