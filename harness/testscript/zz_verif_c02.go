//go:build verif

package testscript

import (
	"strings"

	rt "github.com/rogpeppe/go-internal/internal/verifrt"
)

func vNewTS() *TestScript {
	return &TestScript{envMap: map[string]string{}, file: "script.txt", lineno: 1}
}

// vParse runs the real parser; ok=false when it failed the script.
func vParse(ts *TestScript, line string) (words []string, ok bool) {
	defer func() {
		if r := recover(); r != nil {
			if r == failNow {
				ok = false
				return
			}
			panic(r)
		}
	}()
	return ts.parse(line), true
}

// vRefSplit: reference tokenizer written from the documentation: blanks
// (space, tab, CR) separate words outside quotes, an unquoted # ends the
// line, '…' is literal with '' meaning one quote. No expansion.
func vRefSplit(line []byte) (words [][]byte, ok bool) {
	var cur []byte
	have := false
	quoted := false
	for i := 0; i < len(line); i++ {
		c := line[i]
		if quoted {
			if c == '\'' {
				if i+1 < len(line) && line[i+1] == '\'' {
					cur = append(cur, '\'')
					i++
				} else {
					quoted = false
				}
			} else {
				cur = append(cur, c)
			}
			continue
		}
		if c == '#' {
			break
		}
		if c == ' ' || c == '\t' || c == '\r' {
			if have {
				words = append(words, cur)
				cur = nil
				have = false
			}
			continue
		}
		have = true
		if c == '\'' {
			quoted = true
			continue
		}
		cur = append(cur, c)
	}
	if quoted {
		return nil, false
	}
	if have {
		words = append(words, cur)
	}
	return words, true
}

func vSameWords(got []string, want [][]byte) bool {
	if len(got) != len(want) {
		return false
	}
	ok := true
	for i := range got {
		if len(got[i]) != len(want[i]) {
			return false
		}
		ok = rt.And(ok, rt.StrEq(got[i], string(want[i])))
	}
	return ok
}

// VerifC02Split: differential check of word splitting and quoting on every
// line of up to N bytes without '$' (expansion is checked separately).
func VerifC02Split() {
	n := rt.IntRange(0, rt.Param("N", 5))
	line := rt.Bytes(n)
	for i := range line {
		rt.Assume(line[i] != '\n')
		rt.Assume(line[i] != '$')
	}
	want, wantOK := vRefSplit(line)
	got, ok := vParse(vNewTS(), string(line))
	rt.Assert(ok == wantOK, "unterminated-quote-iff-error")
	if ok && wantOK {
		rt.Reach("parsed")
		if len(want) >= 2 {
			rt.Reach("two-words")
		}
		rt.Assert(len(got) == len(want), "word-count")
		rt.Assert(vSameWords(got, want), "words-equal")
	} else {
		rt.Reach("unterminated")
	}
}

func vQuote(w []byte) []byte {
	out := []byte{'\''}
	for _, c := range w {
		if c == '\'' {
			out = append(out, '\'', '\'')
		} else {
			out = append(out, c)
		}
	}
	return append(out, '\'')
}

// VerifC02QuoteLaw: quoting any words (every byte except newline: quotes,
// $, #, blanks, CR) and joining them with blanks parses back to exactly
// those words, with no expansion inside quotes.
func VerifC02QuoteLaw() {
	k := rt.IntRange(1, rt.Param("K", 2))
	var words [][]byte
	var line []byte
	for i := 0; i < k; i++ {
		w := rt.Bytes(rt.IntRange(0, rt.Param("W", 3)))
		for j := range w {
			rt.Assume(w[j] != '\n')
		}
		words = append(words, w)
		if i > 0 {
			line = append(line, " \t\r"[rt.IntRange(0, 2)])
		}
		line = append(line, vQuote(w)...)
	}
	ts := vNewTS()
	ts.Setenv("A", "boom")
	got, ok := vParse(ts, string(line))
	rt.Reach("quoted-parse")
	rt.Assert(ok, "quoted-line-parses")
	if ok {
		rt.Assert(len(got) == k, "quoted-word-count")
		rt.Assert(vSameWords(got, words), "quoted-words-literal")
	}
}

var vKeys = []string{"A", "B", "AB", "AR"} // AR: a name ending in a letter of the "@R" operator

func vRefQuoteMeta(v string) string {
	var out []byte
	for i := 0; i < len(v); i++ {
		if strings.IndexByte(`\.+*?()|[]{}^$`, v[i]) >= 0 {
			out = append(out, '\\')
		}
		out = append(out, v[i])
	}
	return string(out)
}

// VerifC02Expand: after any history of up to H assignments to A, B, AB with
// symbolic values, $K / ${K} / ${K@R} expand to the latest value as part of
// one word (no re-splitting, no re-expansion), and the environment list
// handed to programs agrees with the variable map (last entry wins).
func VerifC02Expand() {
	ts := vNewTS()
	h := rt.IntRange(0, rt.Param("H", 2))
	last := map[string]string{}
	display := rt.Bool()
	for i := 0; i < h; i++ {
		k := vKeys[rt.IntRange(0, len(vKeys)-1)]
		v := rt.String(rt.IntRange(0, rt.Param("VL", 2)))
		for j := 0; j < len(v); j++ {
			rt.Assume(v[j] != '\n')
			rt.Assume(v[j] != 0)
		}
		// assign directly, through the real env builtin, or through env
		// with a display-only argument (a bare name) before the assignment
		// (one choice per history)
		switch {
		case rt.Bool():
			ts.Setenv(k, v)
		case !display:
			ts.cmdEnv(false, []string{k + "=" + v})
		default:
			ts.cmdEnv(false, []string{"B", k + "=" + v})
			rt.Reach("display-then-assign")
		}
		last[k] = v
	}
	k := vKeys[rt.IntRange(0, len(vKeys)-1)]
	val := last[k] // "" when unset
	form := rt.IntRange(0, 5)
	var line, want string
	switch form {
	case 0:
		line, want = "$"+k, val
	case 1:
		line, want = "${"+k+"}", val
	case 2:
		line, want = "x$"+k+"/y", "x"+val+"/y"
	case 3:
		line, want = "${"+k+"}B", val+"B"
	case 4:
		line, want = "${"+k+"@R}", vRefQuoteMeta(val)
	case 5:
		line, want = "'$"+k+"'$"+k, "$"+k+val
	}
	got, ok := vParse(ts, line)
	rt.Reach("expanded")
	if h >= 2 {
		rt.Reach("reassigned")
	}
	rt.Assert(ok, "expansion-line-parses")
	if !ok {
		return
	}
	// an empty expansion of a bare reference still yields one (empty) word
	rt.Assert(len(got) == 1, "expansion-is-one-word")
	if len(got) == 1 {
		rt.Assert(len(got[0]) == len(want), "expansion-length")
		rt.Assert(rt.StrEq(got[0], want), "expands-to-latest-value")
	}
	// what programs see: last K= entry of the list equals the map
	for _, key := range vKeys {
		seen := ""
		found := false
		for _, kv := range ts.env {
			if strings.HasPrefix(kv, key+"=") {
				seen = kv[len(key)+1:]
				found = true
			}
		}
		_, set := last[key]
		rt.Assert(found == set, "env-list-has-assigned-keys")
		if found {
			rt.Assert(len(seen) == len(ts.Getenv(key)), "env-list-value-length")
			rt.Assert(rt.StrEq(seen, ts.Getenv(key)), "env-list-agrees-with-map")
		}
	}
}
