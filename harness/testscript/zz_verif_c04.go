//go:build verif

package testscript

import (
	"errors"
	"strconv"
	"strings"

	rt "github.com/rogpeppe/go-internal/internal/verifrt"
)

var vDocumentedEnv = map[string]bool{
	"WORK": true, "PATH": true, "GOTRACEBACK": true, "HOME": true, "TMPDIR": true,
	"devnull": true, "/": true, ":": true, "$": true, "exe": true,
}

// VerifC04Isolation: one or two scripts run in sequence through RunT with a
// symbolic host environment, exit kind, TestWork / WorkdirRoot choice.
func VerifC04Isolation() {
	nscripts := rt.IntRange(1, rt.Param("S", 2))
	// script body: snapshot, two defers, optional read-only dir, then an exit kind
	exit := rt.IntRange(0, 3) // 0 pass, 1 fail, 2 skip, 3 stop
	ro := rt.Bool()
	deferExits := rt.Bool() // the second deferred function ends the test itself (FailNow)
	var sb strings.Builder
	sb.WriteString("snap\ndefer 1\ndefer 2\n")
	if ro {
		sb.WriteString("mkro\n")
	}
	switch exit {
	case 1:
		sb.WriteString("exists nope\n")
	case 2:
		sb.WriteString("skip\n")
	case 3:
		sb.WriteString("stop\n")
	}
	sb.WriteString("defer 3\n") // not reached after fail/skip/stop
	script := sb.String() + "-- f1.txt --\none\n-- sub/f2.txt --\ntwo\n"
	fsys := vNewFS([]byte(script))
	files := []string{vScriptFile}
	// two scripts: given as files, or found in a directory where they share their stem (s.txt, s.txtar)
	dirMode := false
	if nscripts == 2 {
		dirMode = rt.Bool()
		if dirMode {
			fsys.PutFile("/scripts/s.txtar", []byte(script), 1)
			rt.Reach("directory-with-same-stem-scripts")
		} else {
			fsys.PutFile("/scripts/t.txt", []byte(script), 1)
			files = append(files, "/scripts/t.txt")
		}
	}
	// host environment: pass-through variables present or not, plus others
	fsys.Env["SECRET"] = "s3cr3t"
	fsys.Env["HOME"] = "/home/user"
	fsys.Env["GOFLAGS"] = "-mod=mod"
	cover := rt.Bool()
	race := rt.Bool()
	if cover {
		fsys.Env["GOCOVERDIR"] = "/cov"
	}
	if race {
		fsys.Env["GORACE"] = "atexit_sleep_ms=10"
	}
	testWork := rt.Bool()
	keepRoot := rt.Bool()
	if keepRoot {
		fsys.MkdirAllP("/keep")
	}

	var order [][]int
	var snapFiles [][]string
	var snapEnv [][]string
	var workdirs []string
	p := Params{
		Files:    files,
		TestWork: testWork,
		Setup: func(e *Env) error {
			e.Setenv("EXTRA", "1")
			return nil
		},
		Cmds: map[string]func(ts *TestScript, neg bool, args []string){
			"snap": func(ts *TestScript, neg bool, args []string) {
				var fl []string
				for k := range fsys.Nodes {
					if strings.HasPrefix(k, ts.workdir+"/") {
						fl = append(fl, k[len(ts.workdir)+1:])
					}
				}
				snapFiles = append(snapFiles, fl)
				snapEnv = append(snapEnv, append([]string{}, ts.env...))
				workdirs = append(workdirs, ts.workdir)
				order = append(order, nil)
			},
			"defer": func(ts *TestScript, neg bool, args []string) {
				n, _ := strconv.Atoi(args[0])
				idx := len(order) - 1
				ts.Defer(func() {
					order[idx] = append(order[idx], n)
					if deferExits && n == 2 {
						ts.t.FailNow()
					}
				})
			},
			"mkro": func(ts *TestScript, neg bool, args []string) {
				ts.Check(fsys_MkdirRO(ts.MkAbs("rodir")))
			},
		},
	}
	if keepRoot {
		p.WorkdirRoot = "/keep"
	}
	if dirMode {
		p.Files, p.Dir = nil, vScriptDir
	}
	root := &vT{name: "root"}
	RunT(root, p)
	rt.Assert(len(root.subs) == nscripts, "one-subtest-per-script")
	rt.Assert(len(snapFiles) == nscripts, "every-script-ran")
	if len(snapFiles) != nscripts {
		return
	}
	for s := 0; s < nscripts; s++ {
		// fresh tree: exactly the archive's files (and the .tmp directory)
		want := map[string]bool{".tmp": true, "f1.txt": true, "sub": true, "sub/f2.txt": true}
		for _, f := range snapFiles[s] {
			rt.Assert(want[f], "work-dir-holds-only-archive-files")
			delete(want, f)
		}
		rt.Assert(len(want) == 0, "work-dir-holds-all-archive-files")
		// environment built from scratch
		seen := map[string]bool{}
		for _, kv := range snapEnv[s] {
			name := kv[:strings.Index(kv, "=")]
			seen[name] = true
			switch {
			case vDocumentedEnv[name], name == "EXTRA":
			case name == "GOCOVERDIR":
				rt.Assert(cover, "gocoverdir-only-when-host-sets-it")
			case name == "GORACE":
				rt.Assert(race, "gorace-only-when-host-sets-it")
			default:
				rt.Fail("host-variable-leaked-into-script-environment")
			}
			rt.Assert(!strings.Contains(kv, "s3cr3t") && !strings.Contains(kv, "/home/user"), "host-values-not-visible")
		}
		rt.Assert(seen["EXTRA"], "setup-additions-present")
		rt.Assert(seen["GOCOVERDIR"] == cover, "gocoverdir-passed-through")
		rt.Assert(seen["GORACE"] == race, "gorace-passed-through")
		// deferred functions ran in reverse order, on every exit kind
		wantOrder := []int{2, 1}
		if exit == 0 {
			wantOrder = []int{3, 2, 1}
		}
		rt.Assert(len(order[s]) == len(wantOrder), "all-deferred-functions-ran")
		if len(order[s]) == len(wantOrder) {
			for i := range wantOrder {
				rt.Assert(order[s][i] == wantOrder[i], "deferred-functions-ran-in-reverse-order")
			}
		}
		// cleanup
		gone := !fsys.Exists(workdirs[s])
		if testWork || keepRoot {
			rt.Assert(!gone, "work-dir-retained-on-request")
			rt.Reach("retained")
		} else {
			rt.Assert(gone, "work-dir-removed")
			rt.Reach("removed")
		}
	}
	if nscripts == 2 {
		rt.Assert(workdirs[0] != workdirs[1], "private-work-directories")
		rt.Reach("two-scripts")
	}
	// the shared root
	rootDir := "/tmp/go-test-script1"
	if keepRoot {
		rt.Assert(fsys.Exists("/keep"), "workdir-root-never-removed")
	} else if testWork {
		rt.Assert(fsys.Exists(rootDir), "temp-root-retained-with-testwork")
	} else {
		rt.Assert(!fsys.Exists(rootDir), "temp-root-removed-after-last-script")
	}
	if deferExits {
		rt.Reach("deferred-function-ends-test")
		rt.Assert(root.subs[0].failed, "failing-deferred-function-fails-the-run")
		return
	}
	switch exit {
	case 0, 3:
		rt.Assert(!root.subs[0].failed && !root.subs[0].skipped, "exit-kind-pass")
		rt.Reach("pass-or-stop")
	case 1:
		rt.Assert(root.subs[0].failed, "exit-kind-fail")
		rt.Reach("fail")
	case 2:
		rt.Assert(root.subs[0].skipped, "exit-kind-skip")
		rt.Reach("skip")
	}
	if ro {
		rt.Reach("read-only-dir")
	}
}

// VerifC04SetupEnds: Params.Setup registers deferred functions and then ends
// the run itself (error, Skip, FailNow) or lets the script run: the deferred
// functions run in reverse order in every case and the work directory goes.
func VerifC04SetupEnds() {
	how := rt.IntRange(0, 3) // 0 setup succeeds, 1 returns an error, 2 skips, 3 FailNow
	testWork := rt.Bool()
	fsys := vNewFS([]byte("later\n-- f.txt --\nx\n"))
	var order []int
	var workdir string
	p := Params{
		Files:    []string{vScriptFile},
		TestWork: testWork,
		Setup: func(e *Env) error {
			workdir = e.WorkDir
			e.Defer(func() { order = append(order, 1) })
			e.Defer(func() { order = append(order, 2) })
			switch how {
			case 1:
				return errors.New("setup failed")
			case 2:
				e.T().Skip("not today")
			case 3:
				e.T().FailNow()
			}
			return nil
		},
		Cmds: map[string]func(ts *TestScript, neg bool, args []string){
			"later": func(ts *TestScript, neg bool, args []string) {
				ts.Defer(func() { order = append(order, 3) })
			},
		},
	}
	root := &vT{name: "root"}
	RunT(root, p)
	rt.Assert(len(root.subs) == 1, "one-subtest-per-script")
	if len(root.subs) != 1 {
		return
	}
	sub := root.subs[0]
	want := []int{2, 1}
	switch how {
	case 0:
		want = []int{3, 2, 1}
		rt.Assert(!sub.failed && !sub.skipped, "setup-success-verdict")
		rt.Reach("setup-succeeds")
	case 1, 3:
		rt.Assert(sub.failed, "setup-failure-fails-the-run")
		rt.Reach("setup-fails")
	case 2:
		rt.Assert(sub.skipped && !sub.failed, "setup-skip-skips-the-run")
		rt.Reach("setup-skips")
	}
	rt.Assert(len(order) == len(want), "all-deferred-functions-ran")
	if len(order) == len(want) {
		for i := range want {
			rt.Assert(order[i] == want[i], "deferred-functions-ran-in-reverse-order")
		}
	}
	rt.Assert(workdir != "", "setup-saw-the-work-directory")
	if workdir != "" {
		if testWork {
			rt.Assert(fsys.Exists(workdir), "work-dir-retained-on-request")
		} else {
			rt.Assert(!fsys.Exists(workdir), "work-dir-removed")
		}
	}
}
