//go:build verif

package testscript

import (
	"context"
	"errors"
	"os"
	"os/exec"
	"strconv"
	"strings"
	"time"

	rt "github.com/rogpeppe/go-internal/internal/verifrt"
)

// C04, process liveness: scripts that start background commands and end in
// every way (pass, wait, failing line, skip, stop). Processes are a model:
// each either exits by itself with a chosen status or runs until it is
// signalled. exec.Command, (*exec.Cmd).Start, (*os.Process).Signal/Kill,
// (*os.ProcessState).Success and waitOrStop are stubs over that model (the
// real waitOrStop is C17's subject); the goroutine that waits for a
// background command runs when the script first blocks on its "done"
// channel (symx's deferred-goroutine model).

type vProc struct {
	cmd         *exec.Cmd
	proc        *os.Process
	state       *os.ProcessState
	selfExit    bool // exits by itself; otherwise runs until signalled
	fails       bool // its own exit status is a failure
	started     bool
	signalled   bool
	exited      bool
	waited      bool
}

type vProcTable struct {
	procs []*vProc
	plan  []vProc // behaviour of the i-th started process
	hangs int     // a wait on a process that nobody stopped
}

var vBG *vProcTable

func (t *vProcTable) byCmd(c *exec.Cmd) *vProc {
	for _, p := range t.procs {
		if p.cmd == c {
			return p
		}
	}
	return nil
}

func vBGStart(c *exec.Cmd) error {
	t := vBG
	p := &vProc{}
	if len(t.procs) < len(t.plan) {
		*p = t.plan[len(t.procs)]
	} else {
		p.selfExit = true
	}
	p.cmd, p.proc, p.started = c, &os.Process{}, true
	c.Process = p.proc
	t.procs = append(t.procs, p)
	return nil
}

func vBGSignal(pr *os.Process, sig os.Signal) error {
	if vBG == nil {
		return nil
	}
	for _, p := range vBG.procs {
		if p.proc == pr {
			if p.waited {
				return os.ErrProcessDone
			}
			p.signalled = true
		}
	}
	return nil
}

func vBGKill(pr *os.Process) error { return vBGSignal(pr, os.Kill) }

func vBGSuccess(st *os.ProcessState) bool {
	if vBG != nil {
		for _, p := range vBG.procs {
			if p.state == st {
				return p.selfExit && !p.fails
			}
		}
	}
	return false
}

func vBGString(st *os.ProcessState) string { return "exit status (model)" }

// vBGExited: the process ended by exiting (with any status), not by a signal.
func vBGExited(st *os.ProcessState) bool {
	if vBG != nil {
		for _, p := range vBG.procs {
			if p.state == st {
				return p.selfExit
			}
		}
	}
	return false
}

// vBGWait is waitOrStop over the model: it returns once the process has ended.
func vBGWait(ctx context.Context, c *exec.Cmd, killDelay time.Duration) error {
	p := vBG.byCmd(c)
	if p == nil {
		rt.Fail("harness-unknown-command")
		return nil
	}
	if !p.selfExit && !p.signalled {
		// the real call would block until somebody stops the process
		vBG.hangs++
		rt.Fail("run-waits-forever-for-a-process-nobody-stopped")
	}
	p.exited, p.waited = true, true
	p.state = &os.ProcessState{}
	c.ProcessState = p.state
	if !p.selfExit {
		return errors.New("signal: interrupt")
	}
	if p.fails {
		return errors.New("exit status 1")
	}
	return nil
}

var vC04BGStubs = map[string]any{
	"stub:(*os.Process).Signal":       vBGSignal,
	"stub:(*os.Process).Kill":         vBGKill,
	"stub:(*os.ProcessState).Success": vBGSuccess,
	"stub:(*os.ProcessState).String":  vBGString,
	"stub:(*os.ProcessState).Exited":  vBGExited,
}

// VerifC04Background: up to two background commands, then one of several endings.
func VerifC04Background() {
	nbg := rt.IntRange(1, rt.Param("B", 2))
	plan := make([]vProc, nbg)
	negs := make([]bool, nbg)
	var sb strings.Builder
	for i := range plan {
		plan[i].selfExit = rt.Bool()
		if plan[i].selfExit {
			plan[i].fails = rt.Bool()
		}
		negs[i] = rt.Bool()
		if negs[i] {
			sb.WriteString("! ")
		}
		// the first command is started under a name
		if i == 0 {
			sb.WriteString("exec ./p0 &n0&\n")
		} else {
			sb.WriteString("exec ./p" + strconv.Itoa(i) + " &\n")
		}
	}
	ending := rt.IntRange(0, 6) // 0 nothing, 1 wait, 2 failing line, 3 skip, 4 stop, 5 wait then failing line, 6 wait for the named command
	switch ending {
	case 1:
		sb.WriteString("wait\n")
	case 2:
		sb.WriteString("exists nope\n")
	case 3:
		sb.WriteString("skip\n")
	case 4:
		sb.WriteString("stop\n")
	case 5:
		sb.WriteString("wait\nexists nope\n")
	case 6:
		sb.WriteString("wait n0\n")
		rt.Assume(plan[0].selfExit) // waiting for a command that runs until signalled blocks by the script's own doing
	}
	// a bare wait (also issued by skip? no: skip does not wait) blocks by the script's own doing when it reaches a
	// process that runs until signalled while every earlier one passed its status check: not generated
	if ending == 1 || ending == 5 {
		for i := range plan {
			if !plan[i].selfExit {
				rt.Assume(false)
			}
			pass := plan[i].fails == negs[i]
			if !pass {
				break
			}
		}
	}
	verbose := rt.Bool()
	rt.Observe("script", sb.String())
	vNewFS([]byte(sb.String()))
	vBG = &vProcTable{plan: plan}
	root := &vT{name: "root", verbose: verbose}
	RunT(root, Params{Files: []string{vScriptFile}})
	tab := vBG
	vBG = nil
	rt.Assert(len(root.subs) == 1, "script-ran")
	rt.Assert(len(tab.procs) == nbg, "every-background-command-started")
	for _, p := range tab.procs {
		rt.Assert(p.exited, "no-started-process-alive-when-the-run-ends")
		rt.Assert(p.waited, "every-started-process-waited-for")
	}
	rt.Assert(tab.hangs == 0, "run-never-blocks-on-an-unstopped-process")
	// verdict: a background command must (or, negated, must not) succeed once its status is checked by wait
	if len(root.subs) == 1 {
		sub := root.subs[0]
		statusFails := func(i int) bool { return (plan[i].selfExit && !plan[i].fails) == negs[i] }
		wantFail, wantSkip := false, false
		switch ending {
		case 1, 5:
			for i := range plan {
				if statusFails(i) {
					wantFail = true
				}
			}
			if ending == 5 {
				wantFail = true
			}
		case 2:
			wantFail = true
		case 3:
			// skip shuts the background commands down first and checks their status
			for i := range plan {
				if statusFails(i) {
					wantFail = true
				}
			}
			wantSkip = !wantFail
		case 6:
			wantFail = statusFails(0)
			rt.Reach("wait-for-named-command")
		}
		// (stop and the plain end of a script: the documentation and the code differ on whether the
		// status is still checked; nothing is demanded there)
		if ending != 0 && ending != 4 {
			rt.Assert(sub.failed == wantFail, "background-status-decides-the-verdict")
			if !wantFail {
				rt.Assert(sub.skipped == wantSkip, "background-skip-verdict")
			}
		}
	}
	switch ending {
	case 0, 4:
		rt.Reach("ends-with-processes-running")
	case 1, 5, 6:
		rt.Reach("wait")
	case 2:
		rt.Reach("fails-with-processes-running")
	case 3:
		rt.Reach("skip-with-processes-running")
	}
}
