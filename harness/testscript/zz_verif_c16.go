//go:build verif

package testscript

import (
	"strconv"
	"strings"

	rt "github.com/rogpeppe/go-internal/internal/verifrt"
	"github.com/rogpeppe/go-internal/internal/verifrt/vfs"
	"github.com/rogpeppe/go-internal/txtar"
)

// vGolden: a well-formed golden body: up to max bytes that cannot start a
// marker or end a line, then a newline.
func vGolden(max int) []byte {
	n := rt.IntRange(0, max)
	b := rt.Bytes(n)
	for i := range b {
		rt.Assume(b[i] != '\n' && b[i] != '\r' && b[i] != '-' && b[i] != '$')
	}
	if n == 0 && rt.Bool() {
		return nil // empty golden file
	}
	return append(b, '\n')
}

type vCmpLine struct {
	target int  // 0,1: archive entry index; 2,3: files outside the archive (3 shares its base name with entry 0)
	neg    bool // ! cmp
	env    bool // cmpenv
}

func vRunScript(script []byte, update bool, actual string, fsys *vfs.FS) *vT {
	p := Params{
		Files:         []string{vScriptFile},
		UpdateScripts: update,
		Cmds: map[string]func(ts *TestScript, neg bool, args []string){
			"emit": func(ts *TestScript, neg bool, args []string) {
				ts.Stdout().Write([]byte(actual))
			},
			"mkoutside": func(ts *TestScript, neg bool, args []string) {
				ts.Check(writeFile(ts.MkAbs("outside.txt"), []byte("outside\n"), 0o666, false))
				ts.Check(writeFile(ts.MkAbs("sub/g0.txt"), []byte("outside\n"), 0o666, false))
			},
		},
	}
	root := &vT{name: "root"}
	RunT(root, p)
	if len(root.subs) != 1 {
		rt.Fail("one-subtest-per-script")
		return root
	}
	return root.subs[0]
}

// VerifC16Update: one actual text compared against golden entries of the
// script archive / a file outside it, by cmp, ! cmp or cmpenv, with and
// without UpdateScripts.
func VerifC16Update() {
	names := []string{"g0.txt", "sub/g1.txt"}
	gold := [][]byte{vGolden(rt.Param("G", 2)), vGolden(rt.Param("G", 2))}
	// a further entry whose name contains a variable reference (expanded only for the file on disk)
	if rt.Bool() {
		names = append(names, "x$NOSUCHVAR.txt")
		gold = append(gold, []byte("z\n"))
		rt.Reach("entry-name-with-variable")
	}
	// actual text: arbitrary short bytes, or a text containing a marker line
	var actual string
	marker := false
	switch rt.IntRange(0, 4) {
	case 4:
		// a marker line ending in CR LF
		c := rt.Byte()
		rt.Assume(c != '\n' && c != '\r' && c < 0x80)
		actual = "-- m --\r\n" + string([]byte{c}) + "\n"
		marker = true
		rt.Reach("actual-has-crlf-marker")
	case 3:
		// lines ending in CR LF (representable in txtar: the text ends with a newline)
		c := rt.Byte()
		rt.Assume(c != '\n' && c != '\r' && c != '-' && c != '$' && c < 0x80)
		actual = string([]byte{c}) + "\r\nz\r\n"
		rt.Reach("actual-with-crlf-lines")
	case 2:
		// a text much longer than any golden entry (and than the marker line that follows it)
		c := rt.Byte()
		rt.Assume(c != '\n' && c != '\r' && c != '-' && c < 0x80)
		actual = strings.Repeat("L", 40) + string([]byte{c}) + "\n"
		rt.Reach("actual-longer-than-the-entry-and-the-next-marker")
	case 0:
		b := rt.Bytes(rt.IntRange(0, rt.Param("A", 2)))
		for i := range b {
			rt.Assume(b[i] != '\r')
		}
		actual = string(b)
	case 1:
		c := rt.Byte()
		rt.Assume(c != '\n' && c != '\r' && c < 0x80)
		actual = "-- m --\n" + string([]byte{c}) + "\n"
		marker = true
		rt.Reach("actual-has-marker")
	}
	ncmp := rt.IntRange(1, rt.Param("C", 1))
	cmps := make([]vCmpLine, ncmp)
	var sb strings.Builder
	sb.WriteString("mkoutside\nemit\n")
	// the comparisons may run from a sub-directory: targets are then named
	// relative to it (or absolutely through $WORK)
	cdsub := rt.Bool()
	refs := []string{"g0.txt", "sub/g1.txt", "outside.txt", "sub/g0.txt"}
	if cdsub {
		sb.WriteString("cd sub\n")
		refs = []string{"../g0.txt", "g1.txt", "$WORK/outside.txt", "g0.txt"}
		rt.Reach("cmp-from-subdirectory")
	}
	for i := range cmps {
		c := vCmpLine{target: rt.IntRange(0, 3), neg: rt.Bool(), env: rt.Bool()}
		cmps[i] = c
		tname := refs[c.target]
		line := "cmp stdout " + tname
		if c.env {
			line = "cmpenv stdout " + tname
		}
		if c.neg {
			line = "! " + line
		}
		sb.WriteString(line + "\n")
	}
	comment := sb.String()
	var script []byte
	script = append(script, comment...)
	// the archive may list g0.txt twice (allowed unless RequireUniqueNames):
	// the later entry is the one unpacked last, i.e. the one compared
	dup := rt.Param("DUP", 1) == 1 && rt.Bool()
	if dup {
		script = append(script, "-- g0.txt --\nold\n"...)
		rt.Reach("duplicate-entry-name")
	}
	for i, n := range names {
		script = append(script, ("-- " + n + " --\n")...)
		script = append(script, gold[i]...)
	}
	orig := append([]byte{}, script...)
	update := rt.Bool()
	fsys := vNewFS(script)
	writesBefore := len(fsys.Mutated)
	t := vRunScript(script, update, actual, fsys)

	// ---- reference ----
	wantFail := false
	updated := map[int]bool{}
	for _, c := range cmps {
		var other []byte
		if c.target < 2 {
			other = gold[c.target]
			if updated[c.target] {
				// an earlier cmp already scheduled this entry: the file on
				// disk is still the old golden (updates apply at the end)
			}
		} else {
			other = []byte("outside\n")
		}
		eq := false
		if len(other) == len(actual) {
			eq = rt.StrEq(string(other), actual)
		}
		switch {
		case c.neg && eq:
			wantFail = true
		case c.neg:
		case eq:
		case update && !c.env && c.target < 2:
			updated[c.target] = true
		default:
			wantFail = true
		}
		if wantFail {
			break // the script stops at the first failing line
		}
	}
	rt.Assert(t.failed == wantFail, "run-passes-iff-all-mismatches-updatable")
	scriptWritten := false
	for _, m := range fsys.Mutated[writesBefore:] {
		if strings.HasSuffix(m, " "+vScriptFile) {
			scriptWritten = true
		}
	}
	// updates recorded before a later failing line are still applied
	// (applyScriptUpdates is deferred)
	if len(updated) == 0 {
		rt.Assert(!scriptWritten, "script-untouched-without-updatable-mismatch")
		rt.Assert(string(fsys.File(vScriptFile).Data) == string(orig), "script-bytes-unchanged")
		rt.Reach("no-update")
		return
	}
	rt.Reach("update")
	rt.Assert(scriptWritten, "script-rewritten")
	got := txtar.Parse(fsys.File(vScriptFile).Data)
	rt.Assert(string(got.Comment) == comment, "script-text-unchanged")
	off := 0
	if dup {
		off = 1
	}
	rt.Assert(len(got.Files) == len(names)+off, "same-number-of-entries")
	if len(got.Files) != len(names)+off {
		return
	}
	if dup {
		// which of two same-named entries is "this entry" is not stated: only its name is checked
		rt.Assert(got.Files[0].Name == "g0.txt", "entry-names-and-order-unchanged")
	}
	for i, f := range got.Files[off:] {
		rt.Assert(f.Name == names[i], "entry-names-and-order-unchanged")
		if !updated[i] {
			rt.Assert(len(f.Data) == len(gold[i]), "untouched-entry-length")
			if len(f.Data) == len(gold[i]) {
				rt.Assert(rt.BytesEq(f.Data, gold[i]), "untouched-entry-unchanged")
			}
			continue
		}
		want := actual
		if marker {
			q, err := txtar.Quote([]byte(actual))
			rt.Assert(err == nil, "marker-text-quotable")
			want = string(q)
			rt.Reach("quoted-update")
		} else if len(want) > 0 && want[len(want)-1] != '\n' {
			want += "\n" // txtar supplies the final newline
		}
		rt.Assert(len(f.Data) == len(want), "updated-entry-length")
		if len(f.Data) == len(want) {
			rt.Assert(rt.StrEq(string(f.Data), want), "updated-entry-holds-actual-content")
		}
	}
	// re-run without UpdateScripts: passes and changes nothing, whenever
	// the content is representable (empty or newline-terminated, unquoted)
	representable := !marker && (len(actual) == 0 || actual[len(actual)-1] == '\n')
	conflict := false // the script also demands that an updated entry differs
	for _, c := range cmps {
		if c.neg && c.target < 2 && updated[c.target] {
			conflict = true
		}
	}
	if representable && !wantFail && !conflict {
		newScript := append([]byte{}, fsys.File(vScriptFile).Data...)
		fsys2 := vNewFS(newScript)
		t2 := vRunScript(newScript, false, actual, fsys2)
		// negated and cmpenv lines are unaffected by the update; only a
		// run whose every line was satisfied or updated is re-checked
		rt.Assert(!t2.failed, "rerun-without-update-passes")
		rt.Assert(string(fsys2.File(vScriptFile).Data) == string(newScript), "rerun-changes-nothing")
		rt.Reach("rerun")
	}
	_ = strconv.Itoa
}
