//go:build verif

package testscript

import (
	"context"
	"errors"
	"os/exec"
	"strings"
	"time"

	rt "github.com/rogpeppe/go-internal/internal/verifrt"
	"github.com/rogpeppe/go-internal/internal/verifrt/vfs"
)

// C17, the part outside waitOrStop itself (which is decided by the tsys
// engine): the deadline arithmetic of RunT, the hand-over of the per-run
// context and grace period to the command runner, and the attribution of a
// command failure to the deadline.
//
// The clock (time.Until), context.WithTimeout, exec.Command, (*exec.Cmd).Start
// and waitOrStop are stubs; everything between them is the real code.

type vCtx struct {
	timeout time.Duration
	expiry  int64 // instant at which it expires, in ns since RunT was called (creation instant + timeout)
	expired *bool
}

func (c *vCtx) Deadline() (time.Time, bool) { return time.Time{}, true }
func (c *vCtx) Done() <-chan struct{}       { return nil }
func (c *vCtx) Value(key any) any           { return nil }
func (c *vCtx) Err() error {
	if *c.expired {
		return context.DeadlineExceeded
	}
	return nil
}

type vC17State struct {
	clock     int64 // ns since RunT was called; advanced by the commands that run
	takes     int64 // how long a foreground command takes
	ctxs      []*vCtx
	expired   bool
	waitCtx   []context.Context
	waitDelay []time.Duration
	waitErr   error
	started   int
}

var vC17 *vC17State

func vC17WithTimeout(parent context.Context, d time.Duration) (context.Context, context.CancelFunc) {
	if vC17 == nil {
		return parent, func() {}
	}
	c := &vCtx{timeout: d, expiry: vC17.clock + int64(d), expired: &vC17.expired}
	vC17.ctxs = append(vC17.ctxs, c)
	return c, func() {}
}

func vC17Command(name string, arg ...string) *exec.Cmd {
	return &exec.Cmd{Path: name, Args: append([]string{name}, arg...)}
}

func vC17Start(c *exec.Cmd) error {
	if vBG != nil {
		return vBGStart(c)
	}
	if vC17 != nil {
		vC17.started++
	}
	return nil
}

func vC17WaitOrStop(ctx context.Context, cmd *exec.Cmd, killDelay time.Duration) error {
	if vBG != nil {
		return vBGWait(ctx, cmd, killDelay)
	}
	if vC17 == nil {
		return nil
	}
	vC17.waitCtx = append(vC17.waitCtx, ctx)
	vC17.waitDelay = append(vC17.waitDelay, killDelay)
	vC17.clock += vC17.takes // the command takes its time
	return vC17.waitErr
}

var vC17Stubs = map[string]any{
	"stub:context.WithTimeout": vC17WithTimeout,
	"stub:os/exec.Command":     vC17Command,
	"stub:(*os/exec.Cmd).Start": vC17Start,
	"stub:github.com/rogpeppe/go-internal/testscript.waitOrStop": vC17WaitOrStop,
}

const vMs = int64(time.Millisecond)

// VerifC17Deadline: one script with one foreground exec, Params.Deadline set
// or not, an arbitrary distance to the deadline, an arbitrary outcome of the
// command and of the context.
func VerifC17Deadline() {
	dl := rt.Bool()
	remaining := rt.Int64()
	// from far in the past to about a year ahead, in nanoseconds
	rt.Assume(remaining >= -(int64(1)<<40) && remaining <= int64(1)<<55)
	neg := rt.Bool()
	failed := rt.Bool()   // waitOrStop reports an error
	expired := rt.Bool()  // the context's deadline has passed when the command returns
	line := "exec ./prog\n"
	if neg {
		line = "! exec ./prog\n"
	}
	fsys := vNewFS([]byte(line))
	// a second script runs after the first one (the recording T runs subtests one at a time), so
	// its command starts later: the first command takes an arbitrary time
	two := rt.Bool()
	takes := rt.Int64()
	rt.Assume(takes >= 0 && takes <= int64(1)<<50)
	if two {
		fsys.PutFile("/scripts/t.txt", []byte(line), 1)
		rt.Reach("second-script-starts-later")
	}
	st := &vC17State{expired: expired, takes: takes}
	if failed {
		st.waitErr = errors.New("signal: killed")
	}
	vC17 = st
	vfs.UntilOverride = func(time.Time) time.Duration { return time.Duration(remaining) }
	_ = fsys
	p := Params{Files: []string{vScriptFile}}
	if two {
		p.Files = append(p.Files, "/scripts/t.txt")
	}
	if dl {
		p.Deadline = time.Unix(1700000100, 0)
	}
	root := &vT{name: "root"}
	RunT(root, p)
	vC17 = nil

	nscr := 1
	if two {
		nscr = 2
	}
	rt.Assert(len(root.subs) == nscr, "script-ran")
	rt.Assert(st.started == nscr && len(st.waitCtx) == nscr, "command-started-and-waited-for-once")
	if len(st.waitCtx) != nscr || len(root.subs) != nscr {
		return
	}
	g := int64(st.waitDelay[0])
	if dl {
		rt.Reach("deadline-set")
		rt.Assert(len(st.ctxs) >= 1, "a-context-with-timeout-exists")
		if len(st.ctxs) < 1 {
			return
		}
		to := int64(st.ctxs[0].timeout)
		// grace period: 5% of the remaining time, at least 100ms
		rt.Assert(g >= 100*vMs, "grace-period-at-least-100ms")
		small := rt.And(g == 100*vMs, remaining < 20*(100*vMs+1))
		large := rt.And(g > 100*vMs, rt.And(20*g <= remaining, remaining < 20*g+20))
		rt.Assert(rt.Or(small, large), "grace-period-is-five-percent-of-remaining-time")
		// the context given to commands expires two grace periods before the deadline ...
		rt.Assert(to == remaining-2*g, "interrupt-two-grace-periods-before-deadline")
		// ... it is that context the foreground command waits on, and the kill follows one grace period later
		// every command, whenever its script starts, waits on a context that expires at that same
		// instant (Deadline - 2 grace periods), with the same kill delay
		for i := range st.waitCtx {
			c, ok := st.waitCtx[i].(*vCtx)
			rt.Assert(ok, "command-waits-on-the-run-context")
			if ok {
				rt.Assert(c.expiry == remaining-2*g, "every-command-interrupted-two-grace-periods-before-deadline")
			}
			rt.Assert(int64(st.waitDelay[i]) == g, "same-kill-delay-for-every-command")
		}
		rt.Assert(to+g == remaining-g, "kill-one-grace-period-before-deadline")
		if g > 100*vMs {
			rt.Reach("grace-period-scaled")
		} else {
			rt.Reach("grace-period-minimum")
		}
	} else {
		rt.Reach("no-deadline")
		rt.Assert(len(st.ctxs) == 0, "no-timeout-without-deadline")
		_, isModel := st.waitCtx[0].(*vCtx)
		rt.Assert(!isModel && st.waitCtx[0].Err() == nil && st.waitCtx[0].Done() == nil, "context-never-expires-without-deadline")
		rt.Assert(g == 100*vMs, "default-grace-period")
	}
	// attribution of the command's failure
	sub := root.subs[0]
	log := sub.logText()
	timedOut := strings.Contains(log, "test timed out while running command")
	switch {
	case failed && dl && expired:
		rt.Reach("timed-out")
		rt.Assert(sub.failed, "timed-out-command-fails-the-script")
		rt.Assert(timedOut, "timed-out-message-reported")
	case failed:
		rt.Assert(!timedOut, "no-timed-out-message-before-the-deadline")
		rt.Assert(sub.failed == !neg, "command-failure-verdict")
		if !neg {
			rt.Reach("plain-failure")
		}
	default:
		rt.Assert(!timedOut, "no-timed-out-message-for-a-successful-command")
		rt.Assert(sub.failed == neg, "command-success-verdict")
		if !neg {
			rt.Reach("unaffected")
		}
	}
}
