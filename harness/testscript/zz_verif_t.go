//go:build verif

package testscript

import (
	"fmt"
	"strings"

	"github.com/rogpeppe/go-internal/internal/verifrt/vfs"
)

// vT is a synchronous recording implementation of the T interface.
type vT struct {
	name    string
	failed  bool
	skipped bool
	logs    []string
	subs    []*vT
	verbose bool
}

type vTExit struct{}

func (t *vT) Skip(args ...any) {
	t.skipped = true
	panic(vTExit{})
}
func (t *vT) Fatal(args ...any) {
	t.logs = append(t.logs, fmt.Sprint(args...))
	t.FailNow()
}
func (t *vT) Parallel()        {}
func (t *vT) Log(args ...any)  { t.logs = append(t.logs, fmt.Sprint(args...)) }
func (t *vT) FailNow()         { t.failed = true; panic(vTExit{}) }
func (t *vT) Verbose() bool    { return t.verbose }
func (t *vT) Run(name string, f func(T)) {
	sub := &vT{name: name, verbose: t.verbose}
	t.subs = append(t.subs, sub)
	func() {
		defer func() {
			if r := recover(); r != nil {
				if _, ok := r.(vTExit); !ok {
					panic(r)
				}
			}
		}()
		f(sub)
	}()
	if sub.failed {
		t.failed = true
	}
}

func (t *vT) logText() string { return strings.Join(t.logs, "\n") }

const (
	vScriptDir  = "/scripts"
	vScriptFile = "/scripts/s.txt"
	vTmpRoot    = "/tmp/tt"
)

// vNewFS prepares the model with a script file and the temp root.
func vNewFS(script []byte) *vfs.FS {
	fsys := vfs.New()
	fsys.NowSec = 1700000000
	fsys.MkdirAllP("/tmp")
	fsys.PutFile(vScriptFile, script, 1700000000)
	fsys.Env["PATH"] = "/bin"
	return fsys
}

// fsys_MkdirRO creates a read-only directory holding one file in the model.
func fsys_MkdirRO(path string) error {
	f := vfs.Cur
	f.MkdirAllP(path)
	f.PutFile(path+"/inner.txt", []byte("x"), 1)
	f.Nodes[path].Mode = f.Nodes[path].Mode&^0o777 | 0o555
	return nil
}
