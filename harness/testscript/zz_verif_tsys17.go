//go:build verif

package testscript

// Harness for the tsys bounded model checker (see /verif/tsys/bmc.py, mode
// "wos"): the real waitOrStop is run as two goroutines (the waiter and the
// helper goroutine it starts) against an environment made of the command's
// process, the context's deadline and the kill-delay timer. The functions
// without a meaningful body are interpreted by the checker.

import (
	"context"
	"os/exec"
	"time"
)

func vWosCtx() context.Context   { return context.Background() } // the per-run context (deadline set or not: solver's choice)
func vWosCmd() *exec.Cmd         { return nil }                  // the started command
func vWosKillDelay() time.Duration { return 1 }                  // the grace period (> 0)
func vWosReturned(err error)     {}                              // waitOrStop has returned err

// VerifWosMain is the goroutine that runs a foreground command.
func VerifWosMain() {
	err := waitOrStop(vWosCtx(), vWosCmd(), vWosKillDelay())
	vWosReturned(err)
}
