//go:build verif

package txtar

import (
	"bytes"

	rt "github.com/rogpeppe/go-internal/internal/verifrt"
	xtxtar "golang.org/x/tools/txtar"
)

// archEq: same comment, names and data (symbolic conjunction, no forking
// on contents).
func archEq(a, b *Archive) bool {
	if len(a.Files) != len(b.Files) {
		return false
	}
	ok := rt.BytesEq(a.Comment, b.Comment)
	for i := range a.Files {
		ok = rt.And(ok, rt.StrEq(a.Files[i].Name, b.Files[i].Name))
		ok = rt.And(ok, rt.BytesEq(a.Files[i].Data, b.Files[i].Data))
	}
	return ok
}

// VerifC03Total: Parse never panics on any byte string of length n ≤ N, and
// Parse∘Format∘Parse == Parse.
func VerifC03Total() {
	n := rt.IntRange(0, rt.Param("N", 6))
	data := rt.Bytes(n)
	a := Parse(data)
	rt.Reach("parsed")
	if len(a.Files) >= 1 {
		rt.Reach("one-file")
	}
	if len(a.Files) >= 2 {
		rt.Reach("two-files")
	}
	b := Parse(Format(a))
	rt.Assert(archEq(a, b), "reparse-stable")
	rt.Observe("nfiles", len(a.Files))
	rt.Observe("comment", a.Comment)
}

// VerifC03Ref: on CR-free input the result agrees with the reference
// parser in golang.org/x/tools/txtar.
func VerifC03Ref() {
	n := rt.IntRange(0, rt.Param("N", 6))
	data := rt.Bytes(n)
	for i := range data {
		rt.Assume(data[i] != '\r')
	}
	a := Parse(data)
	r := xtxtar.Parse(data)
	rt.Reach("parsed")
	if len(r.Files) >= 1 {
		rt.Reach("ref-one-file")
	}
	rt.Assert(archEq(a, r), "agrees-with-reference")
}

var _ = bytes.Equal

func assumeASCII(b []byte) {
	for i := range b {
		rt.Assume(b[i] < 0x80)
	}
}

func symName(max int) string {
	n := rt.IntRange(1, max)
	b := rt.Bytes(n)
	assumeASCII(b)
	for i := range b {
		rt.Assume(b[i] != '\n')
	}
	rt.Assume(!refIsSpace(b[0]))
	rt.Assume(!refIsSpace(b[n-1]))
	return string(b)
}

func symBody(max int) []byte {
	n := rt.IntRange(0, max)
	b := rt.Bytes(n)
	assumeASCII(b)
	if n > 0 {
		rt.Assume(b[n-1] == '\n')
	}
	rt.Assume(!refHasMarkerLine(b))
	return b
}

// VerifC03WellFormed: Parse(Format(a)) == a for well-formed archives built
// from symbolic comment, names and bodies.
func VerifC03WellFormed() {
	k := rt.IntRange(0, rt.Param("K", 2))
	L := rt.Param("L", 4)
	a := &Archive{Comment: symBody(L)}
	for i := 0; i < k; i++ {
		a.Files = append(a.Files, File{Name: symName(rt.Param("NL", 2)), Data: symBody(L)})
	}
	if k == 2 {
		rt.Reach("two-files")
	}
	b := Parse(Format(a))
	rt.Assert(len(b.Files) == k, "wellformed-file-count")
	rt.Assert(archEq(a, b), "wellformed-roundtrip")
}

// VerifC03CRLF: on CR-free input, turning the LF that ends a marker line
// into CRLF (or adding CR / CRLF after a final unterminated marker line)
// changes neither names nor file data nor the comment.
func VerifC03CRLF() {
	n := rt.IntRange(1, rt.Param("N", 8))
	data := rt.Bytes(n)
	assumeASCII(data)
	for i := range data {
		rt.Assume(data[i] != '\r')
	}
	// choose the end of a line: position i of an LF, or n for an unterminated last line
	i := rt.IntRange(0, n)
	if i < n {
		rt.Assume(data[i] == '\n')
	}
	start := i
	for start > 0 && data[start-1] != '\n' {
		start--
	}
	rt.Assume(refIsMarkerLine(data[start:i]))
	rt.Reach("marker-line-chosen")
	a := Parse(data)
	mod := make([]byte, 0, n+2)
	mod = append(mod, data[:i]...)
	mod = append(mod, '\r')
	if i < n {
		mod = append(mod, data[i:]...)
	} else if rt.Bool() {
		mod = append(mod, '\n')
		rt.Reach("eof-crlf")
	} else {
		rt.Reach("eof-cr")
	}
	b := Parse(mod)
	rt.Assert(len(a.Files) == len(b.Files), "crlf-file-count")
	rt.Assert(archEq(a, b), "crlf-same-archive")
}

// VerifC03WellFormedBig: one file whose body and comment are long enough to
// hold marker look-alikes (but, by the reference predicate, no marker line).
func VerifC03WellFormedBig() {
	L := rt.Param("L", 8)
	a := &Archive{Comment: symBody(3)}
	body := symBody(L)
	if len(body) >= 8 {
		rt.Reach("body-long-enough-for-marker")
	}
	a.Files = append(a.Files, File{Name: symName(1), Data: body})
	b := Parse(Format(a))
	rt.Assert(len(b.Files) == 1, "wellformed-big-file-count")
	rt.Assert(archEq(a, b), "wellformed-big-roundtrip")
}
