//go:build verif

package txtar

import (
	"bytes"

	rt "github.com/rogpeppe/go-internal/internal/verifrt"
	xtxtar "golang.org/x/tools/txtar"
)

// archEq: same comment, names and data (symbolic conjunction, no forking
// on contents).
func archEq(a, b *Archive) bool {
	if len(a.Files) != len(b.Files) {
		return false
	}
	ok := rt.BytesEq(a.Comment, b.Comment)
	for i := range a.Files {
		ok = rt.And(ok, rt.StrEq(a.Files[i].Name, b.Files[i].Name))
		ok = rt.And(ok, rt.BytesEq(a.Files[i].Data, b.Files[i].Data))
	}
	return ok
}

// VerifC03Total: Parse never panics on any byte string of length n ≤ N, and
// Parse∘Format∘Parse == Parse.
func VerifC03Total() {
	n := rt.IntRange(0, rt.Param("N", 6))
	data := rt.Bytes(n)
	a := Parse(data)
	rt.Reach("parsed")
	if len(a.Files) >= 1 {
		rt.Reach("one-file")
	}
	if len(a.Files) >= 2 {
		rt.Reach("two-files")
	}
	b := Parse(Format(a))
	rt.Assert(archEq(a, b), "reparse-stable")
	rt.Observe("nfiles", len(a.Files))
	rt.Observe("comment", a.Comment)
}

// VerifC03Ref: on CR-free input the result agrees with the reference
// parser in golang.org/x/tools/txtar.
func VerifC03Ref() {
	n := rt.IntRange(0, rt.Param("N", 6))
	data := rt.Bytes(n)
	for i := range data {
		rt.Assume(data[i] != '\r')
	}
	a := Parse(data)
	r := xtxtar.Parse(data)
	rt.Reach("parsed")
	if len(r.Files) >= 1 {
		rt.Reach("ref-one-file")
	}
	rt.Assert(archEq(a, r), "agrees-with-reference")
}

var _ = bytes.Equal
