//go:build verif

package txtar

import (
	rt "github.com/rogpeppe/go-internal/internal/verifrt"
)

// VerifC14NeedsQuote: NeedsQuote(data) is true exactly when storing data as
// a file body changes how the archive parses.
func VerifC14NeedsQuote() {
	n := rt.IntRange(0, rt.Param("N", 8))
	data := rt.Bytes(n)
	a := &Archive{Files: []File{{Name: "f", Data: data}}}
	b := Parse(Format(a))
	exact := false
	if len(b.Files) == 1 && len(b.Comment) == 0 {
		exact = rt.And(rt.StrEq(b.Files[0].Name, "f"), rt.BytesEq(b.Files[0].Data, refFixNL(data)))
	} else {
		rt.Reach("body-changes-parse")
	}
	nq := NeedsQuote(data)
	if nq {
		rt.Reach("needs-quote")
	}
	rt.Assert(nq == !exact, "needsquote-exact")
}

// VerifC14NeedsQuoteLines: bodies of several lines built from line templates
// (beyond the byte bound of VerifC14NeedsQuote): an ordinary line, a line
// that starts like a marker but is none ("-- " + bytes), a marker line, in
// solver-chosen order, the last one with or without newline.
func VerifC14NeedsQuoteLines() {
	nl := rt.IntRange(1, rt.Param("LINES", 3))
	var data []byte
	for i := 0; i < nl; i++ {
		switch rt.IntRange(0, 2) {
		case 0:
			data = append(data, rt.Bytes(rt.IntRange(0, 1))...)
		case 1:
			data = append(data, "-- "...)
			data = append(data, rt.Bytes(rt.IntRange(0, 2))...)
			rt.Reach("marker-like-line")
		case 2:
			data = append(data, "-- "...)
			data = append(data, rt.Bytes(1)...)
			data = append(data, " --"...)
		}
		if i < nl-1 || rt.Bool() {
			data = append(data, '\n')
		}
	}
	a := &Archive{Files: []File{{Name: "f", Data: data}}}
	b := Parse(Format(a))
	exact := false
	if len(b.Files) == 1 && len(b.Comment) == 0 {
		exact = rt.And(rt.StrEq(b.Files[0].Name, "f"), rt.BytesEq(b.Files[0].Data, refFixNL(data)))
	} else {
		rt.Reach("body-changes-parse")
	}
	nq := NeedsQuote(data)
	rt.Assert(nq == !exact, "needsquote-exact")
}

// VerifC14Quote: Quote/Unquote are inverse, quoted data never needs
// quoting and survives Format/Parse; Quote refuses only unrepresentable data.
func VerifC14Quote() {
	n := rt.IntRange(0, rt.Param("N", 6))
	data := rt.Bytes(n)
	q, err := Quote(data)
	if err != nil {
		rt.Reach("quote-refused")
		bad := false
		if n == 0 {
			bad = false
		} else {
			bad = rt.Or(data[n-1] != '\n', !refValidUTF8(data))
		}
		rt.Assert(bad, "quote-refuses-only-unrepresentable")
		return
	}
	rt.Reach("quoted")
	u, uerr := Unquote(q)
	rt.Assert(uerr == nil, "unquote-accepts-quoted")
	rt.Assert(len(u) == len(data), "unquote-length")
	rt.Assert(rt.BytesEq(u, data), "unquote-inverse")
	rt.Assert(!NeedsQuote(q), "quoted-needs-no-quote")
	a := &Archive{Files: []File{{Name: "f", Data: q}}}
	b := Parse(Format(a))
	rt.Assert(len(b.Files) == 1, "quoted-roundtrip-count")
	if len(b.Files) == 1 {
		rt.Assert(rt.And(rt.StrEq(b.Files[0].Name, "f"), rt.BytesEq(b.Files[0].Data, q)), "quoted-roundtrip")
		rt.Assert(len(b.Comment) == 0, "quoted-roundtrip-comment")
	}
	// representable data must be accepted
	if n > 0 {
		rt.Assert(data[n-1] == '\n', "quote-accepted-has-final-newline")
	}
}

// VerifC14QuoteMarker: bodies that do contain a marker line (the case Quote
// exists for): quoting makes them safe and Unquote restores them.
func VerifC14QuoteMarker() {
	n := rt.IntRange(8, rt.Param("N", 9))
	data := rt.Bytes(n)
	assumeASCII(data)
	rt.Assume(data[n-1] == '\n')
	rt.Assume(refHasMarkerLine(data))
	rt.Reach("quoted-a-marker")
	rt.Assert(NeedsQuote(data), "marker-body-needs-quote")
	q, err := Quote(data)
	rt.Assert(err == nil, "quote-accepts-ascii-newline-terminated")
	if err != nil {
		return
	}
	rt.Assert(!NeedsQuote(q), "quoted-marker-needs-no-quote")
	u, uerr := Unquote(q)
	rt.Assert(uerr == nil, "unquote-accepts")
	rt.Assert(len(u) == n, "unquote-marker-length")
	rt.Assert(rt.BytesEq(u, data), "unquote-marker-inverse")
	a := &Archive{Files: []File{{Name: "f", Data: q}}}
	b := Parse(Format(a))
	rt.Assert(len(b.Files) == 1, "quoted-marker-roundtrip-count")
	if len(b.Files) == 1 {
		rt.Assert(rt.BytesEq(b.Files[0].Data, q), "quoted-marker-roundtrip")
	}
}
