//go:build verif

package txtar

import (
	"strings"

	rt "github.com/rogpeppe/go-internal/internal/verifrt"
	"github.com/rogpeppe/go-internal/internal/verifrt/vfs"
)

const vExtractDir = "/w/d" // short, so that sibling names sharing its prefix ("../dx") fit the name bound

// vRefEscapes: reference classification of an entry name by a segment
// stack: absolute, or climbing above the extraction directory.
func vRefEscapes(name string) bool {
	if strings.HasPrefix(name, "/") {
		return true
	}
	depth := 0
	for _, seg := range strings.Split(name, "/") {
		switch seg {
		case "", ".":
		case "..":
			depth--
			if depth < 0 {
				return true
			}
		default:
			depth++
		}
	}
	return false
}

func vHasDotDotSegment(p string) bool {
	for _, seg := range strings.Split(p, "/") {
		if seg == ".." {
			return true
		}
	}
	return false
}

// VerifC15Write: entries with arbitrary names (every byte value) written
// into an existing directory that may already hold files.
func VerifC15Write() {
	fsys := vfs.New()
	fsys.NowSec = 1700000000
	fsys.MkdirAllP(vExtractDir)
	fsys.PutFile("/w/outside", []byte("keep"), 1)
	fsys.MkdirAllP("/w/elsewhere")
	pre := rt.IntRange(0, 4)
	switch pre {
	case 4:
		// a dangling symbolic link where an entry may want to go, pointing out of the directory
		fsys.PutSymlink(vExtractDir+"/a", "/w/elsewhere/victim")
		rt.Reach("dangling-symlink-in-directory")
	case 1:
		fsys.PutFile(vExtractDir+"/a", []byte("pre-a"), 1)
	case 2:
		fsys.PutFile(vExtractDir+"/a/b", []byte("pre-ab"), 1)
	case 3:
		fsys.PutFile(vExtractDir+"/b", []byte("pre-b"), 1)
	}
	before := map[string]bool{}
	for k := range fsys.Nodes {
		before[k] = true
	}
	n := rt.IntRange(1, rt.Param("E", 2))
	a := &Archive{}
	for i := 0; i < n; i++ {
		name := rt.String(rt.IntRange(0, rt.Param("NL", 4)))
		data := rt.Bytes(rt.IntRange(0, 1))
		a.Files = append(a.Files, File{Name: name, Data: data})
	}
	err := Write(a, vExtractDir)
	// containment: everything created lies strictly beneath the directory
	for k, node := range fsys.Nodes {
		if before[k] {
			continue
		}
		rt.Reach("created")
		inside := rt.And(strings.HasPrefix(k, vExtractDir+"/"), !vHasDotDotSegment(k))
		rt.Assert(inside, "created-path-inside-directory")
		_ = node
	}
	// no pre-existing file changed
	rt.Assert(string(fsys.File("/w/outside").Data) == "keep", "outside-file-untouched")
	switch pre {
	case 1:
		rt.Assert(string(fsys.File(vExtractDir+"/a").Data) == "pre-a", "existing-file-not-overwritten")
	case 2:
		rt.Assert(string(fsys.File(vExtractDir+"/a/b").Data) == "pre-ab", "existing-file-not-overwritten")
	case 3:
		rt.Assert(string(fsys.File(vExtractDir+"/b").Data) == "pre-b", "existing-file-not-overwritten")
	case 4:
		l := fsys.File(vExtractDir + "/a")
		rt.Assert(l != nil && l.Link == "/w/elsewhere/victim", "existing-link-not-replaced")
		rt.Assert(fsys.File("/w/elsewhere/victim") == nil, "nothing-created-through-a-link")
	}
	// escaping names are refused
	anyEscapes := false
	for _, f := range a.Files {
		if vRefEscapes(f.Name) {
			anyEscapes = true
		}
	}
	if anyEscapes {
		rt.Assert(err != nil, "escaping-name-reports-error")
		rt.Reach("escaping-name")
	}
	// a single entry that stays inside, names a fresh path below existing
	// directories only, and contains no NUL is extracted (this is what the
	// txtar-c / txtar-x round trip relies on)
	if n == 1 && !anyEscapes {
		name := a.Files[0].Name
		p := vRefJoin(vExtractDir, name)
		plain := p != vExtractDir && !before[p] && !strings.Contains(name, "\x00")
		for q := p; plain && q != vExtractDir; {
			q = q[:strings.LastIndex(q, "/")]
			if before[q] && !fsysIsDir(fsys, q) {
				plain = false
			}
		}
		if plain {
			rt.Assert(err == nil, "plain-inside-name-is-extracted")
			rt.Reach("plain-name-accepted")
		}
	}
	if err == nil {
		rt.Reach("written")
		// every entry's file holds exactly its data
		for _, f := range a.Files {
			p := vRefJoin(vExtractDir, f.Name)
			node := fsys.File(p)
			rt.Assert(node != nil, "entry-file-exists")
			if node != nil {
				rt.Assert(len(node.Data) == len(f.Data), "entry-file-length")
				if len(node.Data) == len(f.Data) {
					rt.Assert(rt.BytesEq(node.Data, f.Data), "entry-file-holds-data")
				}
			}
		}
	}
}

// vRefJoin: reference normalisation of dir/name by a segment stack.
func vRefJoin(dir, name string) string {
	var stack []string
	for _, seg := range strings.Split(name, "/") {
		switch seg {
		case "", ".":
		case "..":
			if len(stack) > 0 {
				stack = stack[:len(stack)-1]
			}
		default:
			stack = append(stack, seg)
		}
	}
	if len(stack) == 0 {
		return dir
	}
	return dir + "/" + strings.Join(stack, "/")
}

// VerifC15WriteTwo: two entries (registered with shorter names).
func VerifC15WriteTwo() { VerifC15Write() }

func fsysIsDir(f *vfs.FS, p string) bool {
	n := f.File(p)
	return n != nil && n.Dir
}
