//go:build verif

package txtar

// Reference predicates written from the txtar format description, used as
// oracles (independent of findFileMarker/isMarker).

func refIsSpace(b byte) bool {
	return b == ' ' || b == '\t' || b == '\n' || b == '\v' || b == '\f' || b == '\r'
}

// refIsMarkerLine: line (without its LF) begins "-- ", ends " --" (after
// dropping one trailing CR), the two do not overlap, and a non-blank name
// lies between them. ASCII only: callers assume bytes < 0x80 where the
// Unicode space set could matter.
func refIsMarkerLine(line []byte) bool {
	if len(line) > 0 && line[len(line)-1] == '\r' {
		line = line[:len(line)-1]
	}
	if len(line) < 7 {
		return false
	}
	if line[0] != '-' || line[1] != '-' || line[2] != ' ' {
		return false
	}
	n := len(line)
	if line[n-3] != ' ' || line[n-2] != '-' || line[n-1] != '-' {
		return false
	}
	for _, b := range line[3 : n-3] {
		if !refIsSpace(b) {
			return true
		}
	}
	return false
}

// refHasMarkerLine reports whether any line of data is a marker line.
func refHasMarkerLine(data []byte) bool {
	start := 0
	for i := 0; i <= len(data); i++ {
		if i == len(data) || data[i] == '\n' {
			if i > start || i < len(data) {
				if refIsMarkerLine(data[start:i]) {
					return true
				}
			}
			start = i + 1
		}
	}
	return false
}

func refFixNL(data []byte) []byte {
	if len(data) == 0 || data[len(data)-1] == '\n' {
		return data
	}
	out := make([]byte, 0, len(data)+1)
	out = append(out, data...)
	return append(out, '\n')
}

// refValidUTF8 follows RFC 3629 / the Unicode well-formed byte sequence table.
func refValidUTF8(p []byte) bool {
	i := 0
	for i < len(p) {
		b := p[i]
		switch {
		case b < 0x80:
			i++
		case b >= 0xC2 && b <= 0xDF:
			if i+1 >= len(p) || p[i+1] < 0x80 || p[i+1] > 0xBF {
				return false
			}
			i += 2
		case b >= 0xE0 && b <= 0xEF:
			if i+2 >= len(p) {
				return false
			}
			lo, hi := byte(0x80), byte(0xBF)
			if b == 0xE0 {
				lo = 0xA0
			}
			if b == 0xED {
				hi = 0x9F
			}
			if p[i+1] < lo || p[i+1] > hi || p[i+2] < 0x80 || p[i+2] > 0xBF {
				return false
			}
			i += 3
		case b >= 0xF0 && b <= 0xF4:
			if i+3 >= len(p) {
				return false
			}
			lo, hi := byte(0x80), byte(0xBF)
			if b == 0xF0 {
				lo = 0x90
			}
			if b == 0xF4 {
				hi = 0x8F
			}
			if p[i+1] < lo || p[i+1] > hi || p[i+2] < 0x80 || p[i+2] > 0xBF || p[i+3] < 0x80 || p[i+3] > 0xBF {
				return false
			}
			i += 4
		default:
			return false
		}
	}
	return true
}
