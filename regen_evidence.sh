#!/bin/sh
# Regenerates every evidence file from quick runs on the clean /repo tree.
cd /repo && if ! git diff --quiet; then echo "/repo has uncommitted changes"; exit 2; fi
cd /verif
rc=0
for c in $(python3 -c "import json; print(' '.join(c['property_id'] for c in json.load(open('/verif/MANIFEST.json'))['checks']))"); do
	rm -f evidence/$c.json
	out=$(./verif check $c --tier quick 2>&1 | grep -v conda | grep -E "^(OK|INCONCLUSIVE|VIOLATION|KNOWN)")
	echo "$c: $out" | cut -c1-200
	case "$out" in OK*) ;; *) rc=1;; esac
done
exit $rc
