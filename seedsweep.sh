#!/bin/sh
# seedsweep.sh: re-runs every recorded seeded change against the quick check of its property,
# in a scratch worktree (VERIF_REPO), and prints one line per seed. Evidence files are restored afterwards.
WT=/tmp/seedsweep-wt
export GOFLAGS=-mod=mod GOPROXY=off GOSUMDB=off GOTOOLCHAIN=local
cd /repo && git worktree add -q --detach "$WT" HEAD || exit 2
cd /verif
for d in seeded/*/; do
	n=$(basename "$d")
	id=$(python3 -c "import json;print(json.load(open('$d/meta.json'))['property'])")
	case "$n" in C07c) id=C06;; esac
	( cd "$WT" && git apply "/verif/$d/patch.diff" ) || { echo "$n: patch does not apply"; continue; }
	out=$(VERIF_REPO="$WT" ./verif check "$id" --tier quick 2>&1 | grep -E "^(VIOLATION|OK|INCONCLUSIVE)" | head -1 | cut -c1-120)
	echo "$n ($id): $out"
	( cd "$WT" && git checkout -q -- . )
done
cd /repo && git worktree remove --force "$WT"
cd /verif && git checkout -- evidence
