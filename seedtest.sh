#!/bin/sh
# seedtest.sh <ID> [tier] [NAME]: copy the seed from the scratch worktree into /verif/seeded/<NAME>/ (if present),
# apply its patch to /repo, run the check, and always revert /repo.
ID="$1"; TIER="${2:-quick}"; NAME="${3:-$ID}"
SRC=/tmp/seedwt/$NAME/seed_out
DST=/verif/seeded/$NAME
mkdir -p "$DST"
[ -d "$SRC" ] && cp "$SRC"/patch.diff "$SRC"/demo_test.go "$SRC"/meta.json "$DST"/ 2>/dev/null
cd /repo || exit 2
if ! git diff --quiet; then echo "/repo dirty"; exit 2; fi
git apply --check "$DST/patch.diff" || { echo "patch does not apply"; exit 2; }
git apply "$DST/patch.diff"
echo "== check $ID ($TIER) with seeded patch $NAME"
/verif/verif check "$ID" --tier "$TIER" 2>&1 | grep -v conda | grep -E "^(VIOLATION|OK|INCONCLUSIVE|KNOWN)|harness=|^  [a-z-]+:" | cut -c1-400 | head -12
git checkout -- .
git status --short | head -3
