#!/bin/sh
# seedtest.sh <ID> [tier] [NAME]: copy the seed from its scratch worktree into /verif/seeded/<NAME>/ (if present),
# apply its patch to a scratch worktree of /repo (never to /repo itself), run the check against that worktree
# (VERIF_REPO), and put the evidence file back as it was before.
ID="$1"; TIER="${2:-quick}"; NAME="${3:-$ID}"
SRC=/tmp/seedwt/$NAME/seed_out
DST=/verif/seeded/$NAME
WT=/tmp/seedtest-wt-$NAME
mkdir -p "$DST"
[ -d "$SRC" ] && cp "$SRC"/patch.diff "$SRC"/demo_test.go "$SRC"/meta.json "$DST"/ 2>/dev/null
cd /repo || exit 2
git worktree add -q --detach "$WT" HEAD || exit 2
( cd "$WT" && git apply "$DST/patch.diff" ) || { echo "patch does not apply"; git worktree remove --force "$WT"; exit 2; }
SAVED=$(mktemp)
cp "/verif/evidence/$ID.json" "$SAVED" 2>/dev/null
echo "== check $ID ($TIER) with seeded patch $NAME"
VERIF_REPO="$WT" /verif/verif check "$ID" --tier "$TIER" 2>&1 | grep -v conda | grep -E "^(VIOLATION|OK|INCONCLUSIVE|KNOWN)|harness=|^  [a-z-]+:" | cut -c1-400 | head -12
git worktree remove --force "$WT"
[ -s "$SAVED" ] && cp "$SAVED" "/verif/evidence/$ID.json"
rm -f "$SAVED"
