#!/bin/sh
# seedverify.sh <NAME> <pkgdir>: independently confirm a seeded change in a fresh scratch worktree:
# demo fails with the patch, passes without it; the package's existing tests pass with the patch.
NAME="$1"; PKG="$2"
D=/verif/seeded/$NAME
WT=/tmp/seedverify-$NAME
export GOFLAGS=-mod=mod GOPROXY=off GOSUMDB=off GOTOOLCHAIN=local
cd /repo && git worktree add -q --detach "$WT" HEAD || exit 2
cd "$WT"
cp "$D/demo_test.go" "$PKG/zz_seed_demo_test.go"
go test -count=1 -run 'Seed' ./$PKG >/tmp/sv-$NAME-clean.log 2>&1; CLEAN=$?
git apply "$D/patch.diff" || { echo "patch failed"; }
go test -count=1 -run 'Seed' ./$PKG >/tmp/sv-$NAME-patched.log 2>&1; PATCHED=$?
rm "$PKG/zz_seed_demo_test.go"
go test -count=1 ./$PKG >/tmp/sv-$NAME-suite.log 2>&1; SUITE=$?
cd /repo && git worktree remove --force "$WT"
echo "$NAME: demo-without-patch exit=$CLEAN (want 0) demo-with-patch exit=$PATCHED (want 1) existing-suite-with-patch exit=$SUITE (want 0)"
python3 - "$D/meta.json" "$CLEAN" "$PATCHED" "$SUITE" "$PKG" <<'PY'
import json,sys
p=sys.argv[1]
try: m=json.load(open(p))
except Exception: m={}
m['confirmed_by_verifier']={'demo_without_patch_exit':int(sys.argv[2]),'demo_with_patch_exit':int(sys.argv[3]),'existing_package_tests_with_patch_exit':int(sys.argv[4]),'package':sys.argv[5],'how':'fresh scratch worktree of /repo HEAD; go test -run Seed ./<pkg> before and after git apply patch.diff; go test ./<pkg> with the patch and without the demo'}
json.dump(m,open(p,'w'),indent=1)
PY
