package main

func cmdCheck(args []string) int  { return 2 }
func cmdReplay(args []string) int { return 2 }

type NativeResult struct {
	Ran, Agreed int
	Mismatches  []string
}

func ValidateNative(pkg string, res *ExploreResult, extra []Violation) (*NativeResult, error) {
	return &NativeResult{}, nil
}
