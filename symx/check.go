package main

import (
	"crypto/sha256"
	"encoding/json"
	"flag"
	"fmt"
	"os"
	"path/filepath"
	"regexp"
	"runtime"
	"sort"
	"strconv"
	"strings"
	"time"
)

type HarnessSpec struct {
	Fn       string
	Pkg      string // package dir of this harness when it differs from the check's
	Quick    map[string]int
	Thorough map[string]int
	Witness  []string // rt.Reach ids that must be covered (vacuity guard)
	Native   bool     // validate path samples and violations against the native build
	QuickOnly, ThoroughOnly bool
	MaxSteps int
}

type CheckSpec struct {
	ID          string
	Pkg         string // package dir relative to /repo holding the harness
	Harnesses   []HarnessSpec
	Stubs       []string
	Assumptions []string
	Outside     []string
	UsesVFS     bool // the harnesses rely on the file-system model: run its conformance test first
	Bounds      map[string]string
	TimeoutS    map[string]int
}

type knownFinding struct {
	Property string
	Harness  string
	ID       string
	Match    *regexp.Regexp
	Text     string
}

func loadKnown() ([]knownFinding, error) {
	b, err := os.ReadFile(filepath.Join(verifDir, "known_findings.txt"))
	if err != nil {
		if os.IsNotExist(err) {
			return nil, nil
		}
		return nil, err
	}
	var out []knownFinding
	for _, line := range strings.Split(string(b), "\n") {
		line = strings.TrimSpace(line)
		if !strings.HasPrefix(line, "finding:") {
			continue
		}
		kf := knownFinding{Text: strings.TrimSpace(strings.TrimPrefix(line, "finding:"))}
		rest := kf.Text
		// fields: property=… harness=… id=… match=/regex/ then free text
		for _, f := range strings.Fields(rest) {
			switch {
			case strings.HasPrefix(f, "property="):
				kf.Property = f[len("property="):]
			case strings.HasPrefix(f, "harness="):
				kf.Harness = f[len("harness="):]
			case strings.HasPrefix(f, "id="):
				kf.ID = f[len("id="):]
			case strings.HasPrefix(f, "match="):
				re, err := regexp.Compile(f[len("match="):])
				if err != nil {
					return nil, fmt.Errorf("known_findings: bad match regexp %q: %v", f, err)
				}
				kf.Match = re
			}
		}
		out = append(out, kf)
	}
	return out, nil
}

func (k knownFinding) matches(prop string, v Violation) bool {
	if k.Property != prop || (k.Harness != "" && k.Harness != v.Harness) || (k.ID != "" && k.ID != v.ID) {
		return false
	}
	if k.Match != nil && !k.Match.MatchString(inputsString(v.Inputs)) {
		return false
	}
	return true
}

type replayFile struct {
	Property string         `json:"property"`
	Pkg      string         `json:"pkg"`
	Harness  string         `json:"harness"`
	Params   map[string]int `json:"params"`
	Kind     string         `json:"kind"`
	ID       string         `json:"id"`
	Detail   string         `json:"detail"`
	Inputs   []InputRec     `json:"inputs"`
	Rendered string         `json:"inputs_rendered"`
	Native   bool           `json:"native"`
	Observed []string       `json:"observed,omitempty"`
	Outcome  string         `json:"observed_outcome"`
}

func writeReplay(spec *CheckSpec, hs *HarnessSpec, v Violation, outcome string) (string, error) {
	pkg := spec.Pkg
	if hs.Pkg != "" {
		pkg = hs.Pkg
	}
	rf := replayFile{Property: spec.ID, Pkg: pkg, Harness: v.Harness, Params: v.Params, Kind: v.Kind, ID: v.ID, Detail: v.Detail, Inputs: v.Inputs, Rendered: inputsString(v.Inputs), Native: hs.Native, Outcome: outcome, Observed: v.Obs}
	b, _ := json.MarshalIndent(rf, "", " ")
	h := sha256.Sum256(b)
	dir := filepath.Join(verifDir, "replays")
	os.MkdirAll(dir, 0o755)
	path := filepath.Join(dir, fmt.Sprintf("%s-%x.json", spec.ID, h[:6]))
	return path, os.WriteFile(path, b, 0o644)
}

func tierParams(h *HarnessSpec, tier string) map[string]int {
	if tier == "thorough" && h.Thorough != nil {
		return h.Thorough
	}
	return h.Quick
}

func cmdCheck(args []string) int {
	fs := flag.NewFlagSet("check", flag.ExitOnError)
	tier := fs.String("tier", envDefault("VERIF_TIER", "quick"), "quick|thorough")
	workers := fs.Int("workers", runtime.NumCPU(), "workers")
	only := fs.String("only", "", "run only this harness")
	if len(args) < 1 {
		usage()
	}
	id := args[0]
	fs.Parse(args[1:])
	spec := findSpec(id)
	if spec == nil {
		fmt.Fprintf(os.Stderr, "no check for %s\n", id)
		return 2
	}
	seed, _ := strconv.ParseInt(envDefault("VERIF_SEED", "0"), 10, 64)
	start := time.Now()
	known, err := loadKnown()
	if err != nil {
		fmt.Fprintln(os.Stderr, err)
		return 2
	}
	ev := newEvidence(spec, *tier, seed)
	fail := func(msg string) int {
		ev.Coverage["inconclusive"] = msg
		ev.WallS = time.Since(start).Seconds()
		ev.write()
		fmt.Printf("INCONCLUSIVE property=%s %s\n", spec.ID, msg)
		return 2
	}
	pkgs := []string{spec.Pkg}
	for _, h := range spec.Harnesses {
		if h.Pkg != "" && h.Pkg != spec.Pkg {
			pkgs = append(pkgs, h.Pkg)
		}
	}
	prog, err := loadProgram(pkgs)
	if err != nil {
		return fail("cannot load /repo with harness overlay: " + truncStr(err.Error(), 2000))
	}
	ev.Coverage["load_s"] = time.Since(start).Seconds()
	var problems []string
	if spec.UsesVFS {
		seqs, ops, mm, err := VFSConformance(seed)
		if err != nil {
			problems = append(problems, "file-system model conformance: "+err.Error())
		} else {
			ev.Coverage["vfs_model_conformance"] = map[string]int{"sequences": seqs, "operations": ops, "mismatches": mm}
			ev.NativeRan += seqs
			if mm == 0 {
				ev.NativeAgreed += seqs
			} else {
				problems = append(problems, fmt.Sprintf("the file-system model disagrees with the real OS on %d of %d conformance operations", mm, ops))
			}
		}
	}
	timeout := 900
	if *tier == "thorough" {
		timeout = 3 * 3600
	}
	if t, ok := spec.TimeoutS[*tier]; ok {
		timeout = t
	}
	deadline := start.Add(time.Duration(timeout) * time.Second)
	violations := 0
	knownHits := 0
	for i := range spec.Harnesses {
		hs := &spec.Harnesses[i]
		if *only != "" && hs.Fn != *only {
			continue
		}
		if (*tier == "quick" && hs.ThoroughOnly) || (*tier == "thorough" && hs.QuickOnly) {
			continue
		}
		hpkg := spec.Pkg
		if hs.Pkg != "" {
			hpkg = hs.Pkg
		}
		entry := prog.Func(targetModule+"/"+hpkg, hs.Fn)
		if entry == nil {
			problems = append(problems, "harness function missing: "+hs.Fn)
			continue
		}
		params := tierParams(hs, *tier)
		res := Explore(prog, ExploreConfig{Harness: hs.Fn, Entry: entry, Params: params, Workers: *workers, Deadline: deadline,
			SolverMs: 1500, KeepPaths: 40, Seed: seed, MaxViol: 3, MaxSteps: hs.MaxSteps})
		printResult(res, false)
		ev.addHarness(res)
		if res.XCheckDisagree > 0 {
			problems = append(problems, fmt.Sprintf("%s: %d sampled queries were answered differently by another solver (encoding or solver defect)", hs.Fn, res.XCheckDisagree))
		}
		if res.Incomplete != "" {
			problems = append(problems, hs.Fn+": "+res.Incomplete)
		}
		for _, e := range res.EngineErrs {
			problems = append(problems, hs.Fn+": engine: "+truncStr(e, 600))
		}
		if n := res.Outcomes["unsupported"]; n > 0 {
			problems = append(problems, fmt.Sprintf("%s: %d paths hit unsupported constructs, e.g. %s", hs.Fn, n, strings.Join(res.Unsupported, "; ")))
		}
		if n := res.Outcomes["unwind"]; n > 0 {
			problems = append(problems, fmt.Sprintf("%s: %d paths hit the unwinding bound: %s", hs.Fn, n, strings.Join(res.Unwinds, "; ")))
		}
		if res.Unknowns > 0 {
			problems = append(problems, fmt.Sprintf("%s: %d solver queries returned unknown", hs.Fn, res.Unknowns))
		}
		for _, w := range hs.Witness {
			if res.Reached[w] == 0 {
				problems = append(problems, fmt.Sprintf("%s: vacuity: witness %q never reached", hs.Fn, w))
			}
		}
		// confirm violations and validate the translator
		if hs.Native {
			nv, err := ValidateNative(hpkg, res, nil)
			if err != nil {
				problems = append(problems, hs.Fn+": native replay failed: "+truncStr(err.Error(), 1500))
			} else {
				ev.NativeRan += nv.Ran
				ev.NativeAgreed += nv.Agreed
				nSamples := len(res.Samples)
				for _, mm := range nv.Mismatches {
					problems = append(problems, hs.Fn+": symbolic/native disagreement: "+truncStr(mm, 600))
				}
				if len(nv.Mismatches) == 0 {
					for j := range res.Violations {
						res.Violations[j].Confirmed = true
						if nSamples+j < len(nv.Lines) {
							res.Violations[j].Native = nv.Lines[nSamples+j]
						}
					}
				}
			}
		} else {
			for j := range res.Violations {
				ok, out := ConfirmConcrete(prog, entry, hs, res.Violations[j])
				res.Violations[j].Confirmed = ok
				res.Violations[j].Native = out
				ev.NativeRan++
				if ok {
					ev.NativeAgreed++
				} else {
					problems = append(problems, hs.Fn+": counterexample did not reproduce under concrete re-execution: "+out)
				}
			}
		}
		for _, v := range res.Violations {
			if !v.Confirmed {
				continue
			}
			isKnown := false
			for _, k := range known {
				if k.matches(spec.ID, v) {
					isKnown = true
					fmt.Printf("KNOWN-FINDING: property=%s %s\n", spec.ID, k.Text)
					knownHits++
					break
				}
			}
			if isKnown {
				continue
			}
			path, err := writeReplay(spec, hs, v, v.Native)
			if err != nil {
				problems = append(problems, "cannot write replay: "+err.Error())
				continue
			}
			violations++
			fmt.Printf("VIOLATION property=%s replay=%s\n", spec.ID, path)
			fmt.Printf("  harness=%s %s/%s %s inputs: %s observed: %v\n", v.Harness, v.Kind, v.ID, v.Detail, inputsString(v.Inputs), v.Obs)
			ev.ViolationList = append(ev.ViolationList, fmt.Sprintf("%s %s/%s %s inputs: %s", v.Harness, v.Kind, v.ID, v.Detail, inputsString(v.Inputs)))
		}
	}
	ev.Violations = violations
	ev.Coverage["known_findings_hit"] = knownHits
	ev.WallS = time.Since(start).Seconds()
	if violations > 0 {
		ev.Coverage["exhaustive"] = false
		ev.write()
		return 1
	}
	if len(problems) > 0 {
		return fail(strings.Join(problems, " | "))
	}
	ev.Coverage["exhaustive"] = true
	ev.write()
	fmt.Printf("OK property=%s tier=%s paths=%d queries=%d wall=%.1fs\n", spec.ID, *tier, ev.States, ev.Queries, ev.WallS)
	return 0
}

// ---------- evidence ----------

type evidence struct {
	spec          *CheckSpec
	PropertyID    string
	Tier          string
	Seed          int64
	Coverage      map[string]interface{}
	States        int
	Transitions   int
	Queries       int
	SolverS       float64
	NativeRan     int
	NativeAgreed  int
	Violations    int
	ViolationList []string
	WallS         float64
	samples       []interface{}
	funcs         map[string]bool
	harnesses     []interface{}
}

func newEvidence(spec *CheckSpec, tier string, seed int64) *evidence {
	return &evidence{spec: spec, PropertyID: spec.ID, Tier: tier, Seed: seed, Coverage: map[string]interface{}{}, funcs: map[string]bool{}}
}

func (e *evidence) addHarness(r *ExploreResult) {
	e.States += r.Paths
	e.Transitions += r.Decisions
	e.Queries += r.Solver.Queries
	e.SolverS += r.Solver.Time.Seconds()
	for f := range r.Funcs {
		if strings.Contains(f, "/internal/verifrt.") {
			continue
		}
		e.funcs[f] = true
	}
	n := 0
	for _, s := range r.Samples {
		if n >= 6 {
			break
		}
		n++
		e.samples = append(e.samples, map[string]interface{}{"harness": r.Harness, "outcome": s.Outcome, "inputs": inputsString(s.Inputs), "observed": s.Obs})
	}
	e.harnesses = append(e.harnesses, map[string]interface{}{
		"harness": r.Harness, "params": r.Params, "paths": r.Paths, "outcomes": r.Outcomes, "decisions": r.Decisions,
		"ssa_steps": r.Steps, "max_decision_depth": r.MaxDepth, "witnesses_reached": r.Reached,
		"queries": map[string]int{"total": r.Solver.Queries, "sat": r.Solver.Sat, "unsat": r.Solver.Unsat, "unknown": r.Solver.Unknown, "feasibility": r.FeasQ, "assertion": r.AssertQ},
		"solver_time_s": r.Solver.Time.Seconds(), "slowest_query_s": r.Solver.SlowQuery.Seconds(), "wall_s": r.Wall.Seconds(),
		"fmt_approximations": r.FmtApprox, "byte_domain_prefilter": map[string]int{"sat": r.LocalSat, "unsat": r.LocalUnsat}, "standalone_portfolio": map[string]interface{}{"queries": r.StandaloneQ, "decided": r.StandaloneOK, "time_s": r.StandaloneT.Seconds(), "solvers": "z3 4.8.12, z3 5.1.0, cvc5 1.0"}, "solver_cross_check": map[string]int{"sampled": r.XCheckN, "agreed": r.XCheckAgree, "disagreed": r.XCheckDisagree, "undecided_by_the_others": r.XCheckUndecided}, "incomplete": r.Incomplete, "violations_found": len(r.Violations),
	})
}

func (e *evidence) write() {
	var fns []string
	for f := range e.funcs {
		fns = append(fns, f)
	}
	sort.Strings(fns)
	cov := e.Coverage
	states, trans := e.States, e.Transitions
	if states < 1 {
		states = 1
	}
	if trans < 1 {
		trans = 1
	}
	cov["states"] = states
	cov["transitions"] = trans
	cov["traces_validated_against_impl"] = e.NativeAgreed
	cov["traces_replayed"] = e.NativeRan
	if len(e.samples) == 0 {
		e.samples = append(e.samples, "no path completed")
	}
	cov["samples"] = e.samples
	cov["functions_encoded"] = fns
	cov["harnesses"] = e.harnesses
	cov["queries_discharged"] = e.Queries
	cov["solver_time_s"] = e.SolverS
	cov["solver"] = envDefault("SYMX_SOLVER", "z3-new") + " (z3 5.1.0 unless overridden; one incremental process per worker, assertion stack mirrors the path condition; undecided queries go to a stand-alone portfolio of z3 4.8.12, z3 5.1.0 and cvc5 1.0)"
	cov["bounds"] = e.spec.Bounds[e.Tier]
	cov["stubs"] = e.spec.Stubs
	cov["outside_claim"] = e.spec.Outside
	cov["rule"] = "states = feasible symbolic paths of the real functions' go/ssa form explored to completion; transitions = branch/value decisions on symbolic conditions; every decision's other side was either explored or refuted (unsat) by the solver"
	if e.ViolationList != nil {
		cov["violation_list"] = e.ViolationList
	}
	out := map[string]interface{}{
		"property_id": e.PropertyID,
		"tier":        e.Tier,
		"seed":        e.Seed,
		"level":       "model_checking",
		"coverage":    cov,
		"assumptions": e.spec.Assumptions,
		"wall_s":      e.WallS,
		"violations":  e.Violations,
	}
	if e.spec.Assumptions == nil {
		out["assumptions"] = []string{}
	}
	b, _ := json.MarshalIndent(out, "", " ")
	dir := filepath.Join(verifDir, "evidence")
	os.MkdirAll(dir, 0o755)
	os.WriteFile(filepath.Join(dir, e.PropertyID+".json"), b, 0o644)
}

// ---------- replay ----------

func cmdReplay(args []string) int {
	if len(args) < 1 {
		usage()
	}
	b, err := os.ReadFile(args[0])
	if err != nil {
		fmt.Fprintln(os.Stderr, err)
		return 2
	}
	var rf replayFile
	if err := json.Unmarshal(b, &rf); err != nil {
		fmt.Fprintln(os.Stderr, err)
		return 2
	}
	want := "panic"
	if rf.Kind == "assert" {
		want = "assert:" + rf.ID
	}
	if rf.Native {
		nv, err := RunNative(rf.Pkg, []ReplayRec{{Harness: rf.Harness, Params: rf.Params, Inputs: rf.Inputs, Outcome: want}})
		if err != nil {
			fmt.Fprintln(os.Stderr, err)
			return 2
		}
		fmt.Printf("native replay of %s (%s) inputs %s:\n  %v\n", rf.Harness, rf.Property, rf.Rendered, nv.Lines)
		if nv.Agreed == 1 {
			fmt.Printf("VIOLATION property=%s replay=%s\n", rf.Property, args[0])
			return 1
		}
		fmt.Println("violation did not reproduce")
		return 0
	}
	prog, err := loadProgram([]string{rf.Pkg})
	if err != nil {
		fmt.Fprintln(os.Stderr, err)
		return 2
	}
	entry := prog.Func(targetModule+"/"+rf.Pkg, rf.Harness)
	if entry == nil {
		fmt.Fprintln(os.Stderr, "harness not found")
		return 2
	}
	ok, out := ConfirmConcrete(prog, entry, &HarnessSpec{Fn: rf.Harness}, Violation{ID: rf.ID, Kind: rf.Kind, Inputs: rf.Inputs, Params: rf.Params, Harness: rf.Harness})
	fmt.Printf("concrete re-execution of %s (%s) inputs %s:\n  %s\n", rf.Harness, rf.Property, rf.Rendered, out)
	if ok {
		fmt.Printf("VIOLATION property=%s replay=%s\n", rf.Property, args[0])
		return 1
	}
	fmt.Println("violation did not reproduce")
	return 0
}

// ConfirmConcrete re-executes the harness with every input fixed to the
// model's value (no solver involvement in control flow) and checks that the
// same assertion fails / the same panic occurs.
func ConfirmConcrete(prog *Program, entry interface{ String() string }, hs *HarnessSpec, v Violation) (bool, string) {
	ex := NewExec(prog, 30000)
	defer ex.Close()
	ex.params = v.Params
	ex.harness = v.Harness
	vals := make([]uint64, len(v.Inputs))
	for i, in := range v.Inputs {
		vals[i] = in.Val
	}
	ex.fixed = vals
	fn := prog.Func(entryPkg(entry.String()), v.Harness)
	pr := ex.RunPath(fn, WorkItem{})
	for _, pv := range pr.Viol {
		if pv.ID == v.ID && pv.Kind == v.Kind {
			return true, fmt.Sprintf("reproduced: %s/%s %s (path outcome %s)", pv.Kind, pv.ID, pv.Detail, pr.Outcome)
		}
	}
	return false, fmt.Sprintf("not reproduced: outcome=%s %s", pr.Outcome, pr.Detail)
}

func entryPkg(full string) string {
	i := strings.LastIndex(full, ".")
	return full[:i]
}
