package main

// Byte-domain pre-filter. Most branch conditions in byte-level code mention
// a single 8-bit input variable (b == '\n', table[b] != 0, b < 0x80). For
// such a condition the executor computes its exact 256-entry truth table by
// evaluating the term, and keeps per variable the set of values allowed by
// the single-variable constraints already on the path. This gives:
//   - a sound refutation (set ∩ table = ∅ ⇒ unsat) for every variable, and
//   - an exact answer with a witness when the variable occurs in no
//     constraint together with other variables (it is independent, so the
//     rest of the model is unaffected).
// Everything else goes to the SMT solver. The filter only ever answers
// what the solver would answer; it exists to cut process round-trips.

import (
	"fmt"
	"math/bits"
	"os"
)

type byteSet [4]uint64

func (s *byteSet) has(i int) bool { return s[i>>6]>>(uint(i)&63)&1 != 0 }
func (s *byteSet) and(t *byteSet) byteSet {
	return byteSet{s[0] & t[0], s[1] & t[1], s[2] & t[2], s[3] & t[3]}
}
func (s *byteSet) andNot(t *byteSet) byteSet {
	return byteSet{s[0] &^ t[0], s[1] &^ t[1], s[2] &^ t[2], s[3] &^ t[3]}
}
func (s *byteSet) empty() bool { return s[0]|s[1]|s[2]|s[3] == 0 }
func (s *byteSet) first() int {
	for i, w := range s {
		if w != 0 {
			return i*64 + bits.TrailingZeros64(w)
		}
	}
	return -1
}

var fullByteSet = byteSet{^uint64(0), ^uint64(0), ^uint64(0), ^uint64(0)}

const maxTrackedVars = 12

var manyVars = make([]*Term, maxTrackedVars+1)

// varsOf returns the distinct variables of t (at most maxTrackedVars; manyVars beyond).
func (tb *TermTable) varsOf(t *Term) []*Term {
	if t.varsDone {
		return t.vars
	}
	var out []*Term
	switch t.op {
	case OpConst:
	case OpVar:
		out = []*Term{t}
	default:
		for _, a := range t.args {
			vs := tb.varsOf(a)
			if len(vs) > maxTrackedVars {
				out = manyVars
				break
			}
			for _, v := range vs {
				dup := false
				for _, o := range out {
					if o == v {
						dup = true
					}
				}
				if !dup {
					out = append(out, v)
				}
			}
			if len(out) > maxTrackedVars {
				out = manyVars
				break
			}
		}
		if t.op == OpUF {
			// UF applications are not evaluable locally: poison
			out = manyVars
		}
	}
	t.vars = out
	t.varsDone = true
	return out
}

// truthTable of a boolean term over its single 8-bit variable.
func (tb *TermTable) truthTable(t *Term, v *Term) *byteSet {
	if t.tt != nil {
		return t.tt
	}
	var s byteSet
	m := &Model{vals: map[string]uint64{}}
	for i := 0; i < 256; i++ {
		m.vals[v.name] = uint64(i)
		if tb.Eval(t, m) != 0 {
			s[i>>6] |= 1 << (uint(i) & 63)
		}
	}
	t.tt = &s
	return t.tt
}

func (ex *Exec) domOf(v *Term) *byteSet {
	if d, ok := ex.dom[v]; ok {
		return d
	}
	return &fullByteSet
}

// notePC updates domains when c joins the path condition.
func (ex *Exec) notePC(c *Term) {
	if c.op == OpBAnd {
		for _, a := range c.args {
			ex.notePC(a)
		}
		return
	}
	vs := ex.tb.varsOf(c)
	if len(vs) == 1 && vs[0].w == 8 {
		v := vs[0]
		d := ex.domOf(v).and(ex.tb.truthTable(c, v))
		ex.dom[v] = &d
		return
	}
	if len(vs) > maxTrackedVars {
		ex.anyMulti = true
		return
	}
	for _, v := range vs {
		ex.multi[v] = true
	}
}

// localCheck tries to answer sat(pc ∧ extra) without the solver.
func (ex *Exec) localCheck(extra *Term) (Result, *Model, bool) {
	if extra == nil {
		return Unknown, nil, false
	}
	vs := ex.tb.varsOf(extra)
	if len(vs) != 1 || vs[0].w != 8 {
		return Unknown, nil, false
	}
	v := vs[0]
	cand := ex.domOf(v).and(ex.tb.truthTable(extra, v))
	if cand.empty() {
		ex.localUnsat++
		return Unsat, nil, true
	}
	if ex.anyMulti || ex.multi[v] || ex.model == nil {
		if os.Getenv("SYMX_DEBUG_DOM") != "" {
			fmt.Fprintf(os.Stderr, "dom-miss anyMulti=%v multi=%v modelnil=%v cond=%s\n", ex.anyMulti, ex.multi[v], ex.model == nil, truncStr(extra.String(), 100))
		}
		return Unknown, nil, false
	}
	// independent variable: exact, with a witness
	m := &Model{vals: make(map[string]uint64, len(ex.model.vals)+1), uf: ex.model.uf}
	for k, x := range ex.model.vals {
		m.vals[k] = x
	}
	m.vals[v.name] = uint64(cand.first())
	ex.localSat++
	return Sat, m, true
}
