package main

// Exec: per-worker symbolic execution state: path condition, decision
// prefix replay, forking by re-execution, assertion checking.

import (
	"fmt"
	"os"
	"sort"
	"strings"
	"time"

	"golang.org/x/tools/go/ssa"
)

type Decision struct {
	IsVal bool   // value decision (concretisation) vs. branch decision
	B     bool   // branch: side taken; value: equal (true) or excluded (false)
	V     uint64 // value
}

type WorkItem struct {
	Prefix []Decision
	Model  *Model // satisfies the path condition of Prefix (nil: unknown)
}

// pathAbort is thrown (as a Go panic) to end the current path.
type pathAbort struct {
	kind   string // "assume", "unsupported", "unwind", "infeasible", "stop"
	detail string
}

type InputRec struct {
	Name string `json:"name"`
	W    int    `json:"w"`
	Val  uint64 `json:"val"`
}

type Violation struct {
	ID      string     `json:"id"`
	Kind    string     `json:"kind"` // "assert" | "panic"
	Detail  string     `json:"detail"`
	Inputs  []InputRec `json:"inputs"`
	Params  map[string]int `json:"params,omitempty"`
	Harness string     `json:"harness"`
	Confirmed bool     `json:"confirmed"`
	Native  string     `json:"native,omitempty"`
	Obs     []string   `json:"observed,omitempty"`
}

type PathResult struct {
	Outcome   string // ok | panic | assume | unsupported | unwind | infeasible | engine
	Detail    string
	Inputs    []InputRec
	Obs       []string // observed values rendered under the final model
	Steps     int
	Decisions int
	Reached   []string
	NewWork   []WorkItem
	Viol      []Violation
	Unknowns  int
}

type Exec struct {
	prog  *Program
	tb    *TermTable
	sol   *Solver
	fresh int

	// per path
	prefix   []Decision
	pos      int
	trace    []Decision
	pc       []*Term
	pcSent   int
	model    *Model
	inputs   []*Term
	ufApps   []*Term
	steps    int
	maxSteps int
	newWork  []WorkItem
	viol     []Violation
	reached  map[string]bool
	obs      []obsRec
	unknowns int
	depth    int
	maxDepth int
	hashApps []hashApp
	hashIn   [][]Value
	events   []string

	globals  map[*ssa.Global]*Value
	inited   map[*ssa.Package]bool
	initing  int
	shared   map[*ssa.Global]*Value // stdlib globals initialised once per worker
	sharedIn map[*ssa.Package]bool
	params   map[string]int
	harness  string
	expectPanic bool

	model0calls int
	fmtApprox   int
	fixed       []uint64 // concrete re-execution: input values in creation order
	dom         map[*Term]*byteSet
	multi       map[*Term]bool
	anyMulti    bool
	localSat    int
	localUnsat  int
	solGen      int
	standaloneQ, standaloneOK int
	xcheckN, xcheckAgree, xcheckDisagree, xcheckUndecided int // sampled cross-checks of incremental answers by other solvers
	queryCount  int
	standaloneT time.Duration
	scaled      map[*Term]*Term
	timeAssumes int
	solPC       []*Term
	cur         *frame
	rawCall     *ssa.Function
	stepProf    map[*ssa.Function]int
	lastPanicWhere string
	snaps       map[*ssa.Package]*pkgSnapshot
	pathCount   int
	funcs       map[string]int
	onceDone    map[*Value]bool
	curStack    string
	chanSeq     int
	pendingGo   []pendingGo // goroutines started but not yet run (deferred-goroutine model)
	goDepth     int
	// statistics
	Feasibility int
	AssertQ     int
	objIDs      map[*Value]int
}

type obsRec struct {
	name string
	v    Value
}

type hashApp struct {
	args []*Term
	outs []*Term
}

func NewExec(p *Program, timeoutMs int) *Exec {
	ex := &Exec{prog: p}
	ex.tb = NewTermTable()
	ex.sol = NewSolver(ex.tb, timeoutMs)
	ex.shared = map[*ssa.Global]*Value{}
	ex.sharedIn = map[*ssa.Package]bool{}
	ex.maxSteps = 20_000_000
	ex.maxDepth = 400
	if os.Getenv("SYMX_STEPPROF") != "" {
		ex.stepProf = map[*ssa.Function]int{}
	}
	ex.funcs = map[string]int{}
	return ex
}

func (ex *Exec) Close() {
	ex.sol.Close()
	if ex.stepProf != nil {
		type kv struct {
			f *ssa.Function
			n int
		}
		var l []kv
		for f, n := range ex.stepProf {
			l = append(l, kv{f, n})
		}
		sort.Slice(l, func(i, j int) bool { return l[i].n > l[j].n })
		for i, e := range l {
			if i >= 25 {
				break
			}
			fmt.Fprintf(os.Stderr, "STEPPROF %10d %s\n", e.n, e.f)
		}
	}
}

func (ex *Exec) resetPath(item WorkItem) {
	ex.pathCount++
	if ex.pathCount%500 == 0 {
		// terms of finished paths are garbage: start a fresh table and
		// a clean solver context
		ex.tb = NewTermTable()
		ex.sol.tb = ex.tb
		ex.sol.Reset()
	}
	ex.prefix = item.Prefix
	ex.pos = 0
	ex.trace = ex.trace[:0]
	ex.pc = ex.pc[:0]
	ex.pcSent = 0
	ex.model = item.Model
	if ex.model == nil && len(item.Prefix) == 0 {
		ex.model = &Model{vals: map[string]uint64{}}
	}
	ex.inputs = ex.inputs[:0]
	ex.ufApps = ex.ufApps[:0]
	ex.steps = 0
	ex.newWork = nil
	ex.viol = nil
	ex.reached = map[string]bool{}
	ex.obs = nil
	ex.unknowns = 0
	ex.depth = 0
	ex.fresh = 0
	ex.hashApps = nil
	ex.hashIn = nil
	ex.scaled = nil
	ex.events = nil
	ex.globals = map[*ssa.Global]*Value{}
	ex.inited = map[*ssa.Package]bool{}
	ex.objIDs = nil
	ex.onceDone = nil
	ex.curStack = ""
	ex.dom = map[*Term]*byteSet{}
	ex.multi = map[*Term]bool{}
	ex.anyMulti = false
	ex.chanSeq = 0
	ex.pendingGo = nil
	ex.goDepth = 0
	ex.expectPanic = false
}

// ---------- path condition ----------

func (ex *Exec) addPC(c *Term) {
	if c.IsConst() {
		if c.c == 0 {
			panic(pathAbort{"infeasible", "false added to path condition"})
		}
		return
	}
	ex.pc = append(ex.pc, c)
	ex.notePC(c)
}

// syncPC brings the solver's assertion stack (one scope per path-condition
// entry) in line with this path's condition, keeping the prefix shared
// with the previously explored path.
func (ex *Exec) syncPC() {
	if ex.solGen != ex.sol.Gen {
		// the solver lost its state (restart or reset)
		ex.solGen = ex.sol.Gen
		ex.solPC = ex.solPC[:0]
	}
	i := 0
	for i < len(ex.solPC) && i < len(ex.pc) && ex.solPC[i] == ex.pc[i] {
		i++
	}
	for len(ex.solPC) > i {
		ex.sol.Pop()
		ex.solPC = ex.solPC[:len(ex.solPC)-1]
	}
	for ; i < len(ex.pc); i++ {
		ex.sol.Push()
		ex.sol.Assert(ex.pc[i])
		ex.solPC = append(ex.solPC, ex.pc[i])
	}
}

// checkWith asks whether pc ∧ extra is satisfiable; on Sat returns a model.
func (ex *Exec) checkWith(extra *Term) (Result, *Model) {
	if r, m, ok := ex.localCheck(extra); ok {
		return r, m
	}
	ex.syncPC()
	ex.sol.Push()
	if extra != nil {
		ex.sol.Assert(extra)
	}
	gen := ex.sol.Gen
	r := ex.sol.Check()
	if ex.sol.Gen != gen {
		// the solver was killed by the watchdog and restarted clean (no
		// scopes, no assertions): retry once on the fresh process
		ex.syncPC()
		ex.sol.Push()
		if extra != nil {
			ex.sol.Assert(extra)
		}
		gen = ex.sol.Gen
		r = ex.sol.Check()
		if ex.sol.Gen != gen {
			return ex.Standalone(extra, 120)
		}
	}
	var m *Model
	if r == Sat {
		m = ex.sol.GetModel(ex.inputs, ex.ufApps)
	}
	ex.sol.Pop()
	if r == Unknown {
		// not decided incrementally within the soft timeout: portfolio
		r, m = ex.Standalone(extra, 120)
	} else if xcheckEvery > 0 {
		ex.queryCount++
		if ex.queryCount%xcheckEvery == 0 {
			ex.crossCheck(extra, r)
		}
	}
	return r, m
}

func (ex *Exec) tryEval(t *Term) (v uint64, ok bool) {
	if ex.model == nil {
		return 0, false
	}
	defer func() {
		if r := recover(); r != nil {
			if _, is := r.(evalUFMissing); is {
				ok = false
				return
			}
			panic(r)
		}
	}()
	return ex.tb.Eval(t, ex.model), true
}

// Decide forks on a symbolic condition.
func (ex *Exec) Decide(c *Term) bool {
	if c.IsConst() {
		return c.c != 0
	}
	if ex.pos < len(ex.prefix) {
		d := ex.prefix[ex.pos]
		if d.IsVal {
			panic(engineError{fmt.Sprintf("decision prefix desync at %d: expected branch, have value decision", ex.pos)})
		}
		ex.pos++
		ex.trace = append(ex.trace, d)
		if d.B {
			ex.addPC(c)
		} else {
			ex.addPC(ex.tb.BNot(c))
		}
		return d.B
	}
	nc := ex.tb.BNot(c)
	ex.Feasibility++
	v, ok := ex.tryEval(c)
	if !ok {
		// no usable model: query both sides
		r1, m1 := ex.checkWith(c)
		r2, m2 := ex.checkWith(nc)
		if r1 == Unknown {
			ex.unknowns++
		}
		if r2 == Unknown {
			ex.unknowns++
		}
		if r1 == Unsat && r2 == Unsat {
			panic(pathAbort{"infeasible", "both sides unsat"})
		}
		if r1 != Unsat && r2 != Unsat {
			ex.enqueue(Decision{B: false}, m2)
			ex.pushBranch(true, c, m1)
			return true
		}
		if r1 != Unsat {
			ex.pushBranch(true, c, m1)
			return true
		}
		ex.pushBranch(false, nc, m2)
		return false
	}
	side := v != 0
	other := nc
	cond := c
	if !side {
		other = c
		cond = nc
	}
	r, m := ex.checkWith(other)
	if r == Unknown {
		ex.unknowns++
	}
	if r != Unsat {
		ex.enqueue(Decision{B: !side}, m)
	}
	ex.trace = append(ex.trace, Decision{B: side})
	ex.pos++
	ex.addPC(cond)
	return side
}

func (ex *Exec) pushBranch(side bool, cond *Term, m *Model) {
	ex.trace = append(ex.trace, Decision{B: side})
	ex.pos++
	ex.addPC(cond)
	ex.model = m
}

func (ex *Exec) enqueue(d Decision, m *Model) {
	p := make([]Decision, len(ex.trace)+1)
	copy(p, ex.trace)
	p[len(ex.trace)] = d
	ex.newWork = append(ex.newWork, WorkItem{Prefix: p, Model: m})
}

// Concretize forks over the feasible values of t.
func (ex *Exec) Concretize(t *Term) uint64 {
	if t.IsConst() {
		return t.c
	}
	if t.w == 0 {
		if ex.Decide(t) {
			return 1
		}
		return 0
	}
	for {
		if ex.pos < len(ex.prefix) {
			d := ex.prefix[ex.pos]
			if !d.IsVal {
				panic(engineError{fmt.Sprintf("decision prefix desync at %d: expected value decision", ex.pos)})
			}
			ex.pos++
			ex.trace = append(ex.trace, d)
			eq := ex.tb.Eq(t, ex.tb.Const(t.w, d.V))
			if d.B {
				ex.addPC(eq)
				return d.V
			}
			ex.addPC(ex.tb.BNot(eq))
			continue
		}
		ex.Feasibility++
		v, ok := ex.tryEval(t)
		if !ok {
			r, m := ex.checkWith(nil)
			if r == Unsat {
				panic(pathAbort{"infeasible", "pc unsat at concretize"})
			}
			if r == Unknown {
				panic(pathAbort{"unsupported", "solver unknown while concretizing"})
			}
			ex.model = m
			v = ex.tb.Eval(t, m)
		}
		eq := ex.tb.Eq(t, ex.tb.Const(t.w, v))
		r, m := ex.checkWith(ex.tb.BNot(eq))
		if r == Unknown {
			ex.unknowns++
		}
		if r != Unsat {
			ex.enqueue(Decision{IsVal: true, B: false, V: v}, m)
		}
		ex.trace = append(ex.trace, Decision{IsVal: true, B: true, V: v})
		ex.pos++
		ex.addPC(eq)
		return v
	}
}

// Assume constrains the path; an infeasible assumption ends it quietly.
func (ex *Exec) Assume(c *Term) {
	if c.IsConst() {
		if c.c == 0 {
			panic(pathAbort{"assume", ""})
		}
		return
	}
	if v, ok := ex.tryEval(c); ok && v != 0 {
		ex.addPC(c)
		return
	}
	r, m := ex.checkWith(c)
	ex.Feasibility++
	switch r {
	case Unsat:
		panic(pathAbort{"assume", ""})
	case Sat:
		ex.model = m
	default:
		ex.unknowns++
		ex.model = nil
	}
	ex.addPC(c)
}

// Assert checks that c holds on every input reaching this point.
func (ex *Exec) Assert(c *Term, id string) {
	if c.IsConst() && c.c != 0 {
		return
	}
	if ex.pos < len(ex.prefix) {
		// already checked by the path this one was forked from, under a
		// weaker path condition
		ex.Assume(c)
		return
	}
	nc := ex.tb.BNot(c)
	ex.AssertQ++
	var vm *Model
	if c.IsConst() {
		// constant false: violated for every input on this path
		if ex.model == nil {
			r, m := ex.checkWith(nil)
			if r == Unsat {
				panic(pathAbort{"infeasible", ""})
			}
			ex.model = m
		}
		vm = ex.model
		if vm == nil {
			ex.unknowns++
		}
	} else if v, ok := ex.tryEval(nc); ok && v != 0 {
		vm = ex.model
	} else {
		r, m := ex.checkWith(nc)
		if r == Sat {
			vm = m
		} else if r == Unknown {
			ex.unknowns++
			ex.events = append(ex.events, "assert-unknown:"+id)
		}
	}
	if vm != nil {
		ex.recordViolation(id, "assert", "", vm)
	}
	ex.Assume(c)
}

func (ex *Exec) recordViolation(id, kind, detail string, m *Model) {
	for _, v := range ex.viol {
		if v.ID == id && v.Kind == kind {
			return
		}
	}
	v := Violation{ID: id, Kind: kind, Detail: detail, Inputs: ex.inputValues(m), Harness: ex.harness, Params: ex.params}
	func() {
		defer func() { recover() }()
		for _, o := range ex.obs {
			v.Obs = append(v.Obs, o.name+"="+ex.renderUnder(o.v, m))
		}
	}()
	ex.viol = append(ex.viol, v)
}

func (ex *Exec) inputValues(m *Model) []InputRec {
	out := make([]InputRec, len(ex.inputs))
	for i, v := range ex.inputs {
		var val uint64
		if m != nil {
			val = m.vals[v.name] & maskB(v.w)
		}
		out[i] = InputRec{Name: v.name, W: v.w, Val: val}
	}
	return out
}

// finalModel returns a model of the whole path condition.
func (ex *Exec) finalModel() *Model {
	if ex.model != nil {
		// model may predate UF apps; verify cheaply by evaluating pc
		okAll := true
		func() {
			defer func() {
				if r := recover(); r != nil {
					okAll = false
				}
			}()
			for _, c := range ex.pc {
				if ex.tb.Eval(c, ex.model) == 0 {
					okAll = false
					return
				}
			}
		}()
		if okAll {
			return ex.model
		}
	}
	r, m := ex.checkWith(nil)
	if r == Sat {
		ex.model = m
		return m
	}
	return nil
}

func (ex *Exec) newInput(kind string, w int) *Term {
	name := fmt.Sprintf("%s%d", kind, len(ex.inputs))
	v := ex.tb.Var(name, w)
	ex.inputs = append(ex.inputs, v)
	if ex.fixed != nil {
		var val uint64
		if i := len(ex.inputs) - 1; i < len(ex.fixed) {
			val = ex.fixed[i] & maskB(w)
		}
		if ex.model == nil {
			ex.model = &Model{vals: map[string]uint64{}}
		}
		ex.model.vals[name] = val
		if w == 0 {
			return ex.tb.Bool(val != 0)
		}
		return ex.tb.Const(w, val)
	}
	return v
}

// RunPath executes the harness entry once along item's decision prefix.
func (ex *Exec) RunPath(entry *ssa.Function, item WorkItem) (res PathResult) {
	ex.resetPath(item)
	start := time.Now()
	_ = start
	defer func() {
		r := recover()
		res.Steps = ex.steps
		res.Decisions = len(ex.trace)
		res.NewWork = ex.newWork
		res.Unknowns = ex.unknowns
		switch r := r.(type) {
		case nil:
			res.Outcome = "ok"
		case pathAbort:
			res.Outcome = r.kind
			res.Detail = r.detail
		case targetPanic:
			res.Outcome = "panic"
			res.Detail = ex.panicString(r.v)
			if os.Getenv("SYMX_PANIC_WHERE") != "" {
				res.Detail += "\n" + ex.lastPanicWhere
			}
			if !ex.expectPanic {
				if m := ex.finalModel(); m != nil {
					ex.recordViolation("no-panic", "panic", res.Detail, m)
				} else {
					ex.unknowns++
				}
			}
		case engineError:
			res.Outcome = "engine"
			res.Detail = r.msg
		default:
			res.Outcome = "engine"
			res.Detail = fmt.Sprintf("interpreter crash: %v\n%s", r, ex.stackString())
		}
		if res.Outcome == "ok" || res.Outcome == "panic" {
			if m := ex.finalModel(); m != nil {
				res.Inputs = ex.inputValues(m)
				for _, o := range ex.obs {
					res.Obs = append(res.Obs, o.name+"="+ex.renderUnder(o.v, m))
				}
			} else if len(ex.pc) > 0 {
				// path condition not (known) satisfiable: do not count
				if res.Outcome == "ok" {
					res.Outcome = "infeasible"
				}
			}
		}
		for k := range ex.reached {
			res.Reached = append(res.Reached, k)
		}
		sort.Strings(res.Reached)
		res.Viol = ex.viol
		if len(ex.events) > 0 {
			res.Detail += " " + strings.Join(ex.events, ",")
		}
	}()
	ex.callTop(entry)
	return
}
