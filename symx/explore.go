package main

// Exploration driver: a pool of executors pulls decision prefixes from a
// shared LIFO work stack until it is empty (exhaustive inside the bound) or
// a budget is hit (inconclusive).

import (
	"fmt"
	"sort"
	"sync"
	"time"

	"golang.org/x/tools/go/ssa"
)

type ExploreConfig struct {
	Harness    string
	Entry      *ssa.Function
	Params     map[string]int
	Workers    int
	MaxPaths   int
	Deadline   time.Time
	SolverMs   int
	MaxSteps   int
	KeepPaths  int // number of path samples to keep for validation
	Seed       int64
	MaxViol    int
}

type PathSample struct {
	Outcome string
	Detail  string
	Inputs  []InputRec
	Obs     []string
	Reached []string
}

type ExploreResult struct {
	Harness     string
	Params      map[string]int
	Paths       int // feasible completed paths (ok|panic|stop)
	Outcomes    map[string]int
	Decisions   int
	Steps       int64
	Reached     map[string]int
	Violations  []Violation
	Samples     []PathSample
	Unknowns    int
	Incomplete  string // non-empty: why the exploration is not exhaustive
	EngineErrs  []string
	Unsupported []string
	Unwinds     []string
	Solver      SolverStats
	FeasQ       int
	AssertQ     int
	FmtApprox   int
	LocalSat    int
	StandaloneQ, StandaloneOK int
	XCheckN, XCheckAgree, XCheckDisagree, XCheckUndecided int
	StandaloneT time.Duration
	WaitT, RunT time.Duration
	LocalUnsat  int
	Funcs       map[string]int
	Wall        time.Duration
	MaxDepth    int
}

func Explore(p *Program, cfg ExploreConfig) *ExploreResult {
	res := &ExploreResult{Harness: cfg.Harness, Params: cfg.Params, Outcomes: map[string]int{}, Reached: map[string]int{}, Funcs: map[string]int{}}
	start := time.Now()
	var mu sync.Mutex
	cond := sync.NewCond(&mu)
	// one deque per worker: a worker explores its own subtree depth-first
	// (consecutive paths share long prefixes, which the solver stack keeps)
	// and steals the shallowest pending item of the fullest deque when idle
	deques := make([][]WorkItem, cfg.Workers)
	deques[0] = []WorkItem{{}}
	pending := 1
	active := 0
	stop := false
	total := 0
	violSeen := map[string]bool{}
	var waitT, runT time.Duration

	worker := func(id int) {
		ex := NewExec(p, cfg.SolverMs)
		defer ex.Close()
		ex.params = cfg.Params
		ex.harness = cfg.Harness
		if cfg.MaxSteps > 0 {
			ex.maxSteps = cfg.MaxSteps
		}
		for {
			tw := time.Now()
			mu.Lock()
			for pending == 0 && active > 0 && !stop {
				cond.Wait()
			}
			waitT += time.Since(tw)
			if stop || (pending == 0 && active == 0) {
				mu.Unlock()
				cond.Broadcast()
				break
			}
			var item WorkItem
			if n := len(deques[id]); n > 0 {
				item = deques[id][n-1]
				deques[id] = deques[id][:n-1]
			} else {
				best := -1
				for w := range deques {
					if len(deques[w]) > 0 && (best < 0 || len(deques[w]) > len(deques[best])) {
						best = w
					}
				}
				item = deques[best][0]
				deques[best] = deques[best][1:]
			}
			pending--
			active++
			mu.Unlock()

			tr := time.Now()
			pr := ex.RunPath(cfg.Entry, item)
			dr := time.Since(tr)

			mu.Lock()
			runT += dr
			active--
			total++
			res.Outcomes[pr.Outcome]++
			res.Decisions += pr.Decisions
			res.Steps += int64(pr.Steps)
			res.Unknowns += pr.Unknowns
			if pr.Decisions > res.MaxDepth {
				res.MaxDepth = pr.Decisions
			}
			switch pr.Outcome {
			case "ok", "panic", "stop":
				res.Paths++
				for _, r := range pr.Reached {
					res.Reached[r]++
				}
				if len(res.Samples) < cfg.KeepPaths || (cfg.KeepPaths > 0 && (total*2654435761+int(cfg.Seed))%17 == 0 && pr.Outcome != "stop") {
					s := PathSample{Outcome: pr.Outcome, Detail: pr.Detail, Inputs: pr.Inputs, Obs: pr.Obs, Reached: pr.Reached}
					if len(res.Samples) < cfg.KeepPaths {
						res.Samples = append(res.Samples, s)
					} else {
						res.Samples[(total+int(cfg.Seed))%len(res.Samples)] = s
					}
				}
			case "engine":
				if len(res.EngineErrs) < 5 {
					res.EngineErrs = append(res.EngineErrs, pr.Detail)
				}
			case "unsupported":
				if len(res.Unsupported) < 5 {
					res.Unsupported = append(res.Unsupported, pr.Detail)
				}
			case "unwind":
				if len(res.Unwinds) < 5 {
					res.Unwinds = append(res.Unwinds, pr.Detail)
				}
			}
			for _, v := range pr.Viol {
				key := v.Kind + ":" + v.ID
				if !violSeen[key] || len(res.Violations) < cfg.MaxViol {
					violSeen[key] = true
					if len(res.Violations) < 4*cfg.MaxViol+4 {
						res.Violations = append(res.Violations, v)
					}
				}
			}
			deques[id] = append(deques[id], pr.NewWork...)
			pending += len(pr.NewWork)
			if cfg.MaxPaths > 0 && total >= cfg.MaxPaths && (pending > 0 || active > 0) {
				res.Incomplete = fmt.Sprintf("path budget %d exhausted", cfg.MaxPaths)
				stop = true
			}
			if !cfg.Deadline.IsZero() && time.Now().After(cfg.Deadline) && (pending > 0 || active > 0) {
				res.Incomplete = "time budget exhausted"
				stop = true
			}
			if len(res.EngineErrs) > 0 {
				res.Incomplete = "engine error"
				stop = true
			}
			mu.Unlock()
			cond.Broadcast()
		}
		mu.Lock()
		st := ex.sol.Stats
		res.Solver.Queries += st.Queries
		res.Solver.Sat += st.Sat
		res.Solver.Unsat += st.Unsat
		res.Solver.Unknown += st.Unknown
		res.Solver.Time += st.Time
		res.Solver.Errors += st.Errors
		if st.SlowQuery > res.Solver.SlowQuery {
			res.Solver.SlowQuery = st.SlowQuery
		}
		res.FeasQ += ex.Feasibility
		res.AssertQ += ex.AssertQ
		res.FmtApprox += ex.fmtApprox
		res.LocalSat += ex.localSat
		res.StandaloneQ += ex.standaloneQ
		res.XCheckN += ex.xcheckN
		res.XCheckAgree += ex.xcheckAgree
		res.XCheckDisagree += ex.xcheckDisagree
		res.XCheckUndecided += ex.xcheckUndecided
		res.StandaloneOK += ex.standaloneOK
		res.StandaloneT += ex.standaloneT
		res.LocalUnsat += ex.localUnsat
		for k, v := range ex.funcs {
			res.Funcs[k] += v
		}
		mu.Unlock()
	}
	var wg sync.WaitGroup
	for i := 0; i < cfg.Workers; i++ {
		wg.Add(1)
		go func(i int) {
			defer wg.Done()
			defer func() {
				if r := recover(); r != nil {
					mu.Lock()
					res.EngineErrs = append(res.EngineErrs, fmt.Sprint("worker crash: ", r))
					res.Incomplete = "engine error"
					stop = true
					mu.Unlock()
					cond.Broadcast()
				}
			}()
			worker(i)
		}(i)
	}
	wg.Wait()
	res.Wall = time.Since(start)
	res.WaitT, res.RunT = waitT, runT
	sort.Slice(res.Violations, func(i, j int) bool { return res.Violations[i].ID < res.Violations[j].ID })
	return res
}
