package main

// Concrete fast paths: pure standard-library functions are run natively
// when every argument is concrete (same result as interpreting their SSA,
// only faster). With any symbolic argument the SSA is interpreted.

import (
	"encoding/hex"
	"path/filepath"
	"strings"
)

func concStr(v Value) (string, bool) {
	s, ok := v.(string)
	return s, ok
}

func concStrs(v Value) ([]string, bool) {
	xs, ok := v.([]Value)
	if !ok && v != nil {
		return nil, false
	}
	out := make([]string, len(xs))
	for i, x := range xs {
		s, ok := x.(string)
		if !ok {
			return nil, false
		}
		out[i] = s
	}
	return out, true
}

type fastFn func(ex *Exec, args []Value) (Value, bool)

var fastPaths = map[string]fastFn{
	"path/filepath.Clean": func(ex *Exec, a []Value) (Value, bool) {
		if s, ok := concStr(a[0]); ok {
			return filepath.Clean(s), true
		}
		return nil, false
	},
	"internal/filepathlite.Clean": func(ex *Exec, a []Value) (Value, bool) {
		if s, ok := concStr(a[0]); ok {
			return filepath.Clean(s), true
		}
		return nil, false
	},
	"path/filepath.Join": func(ex *Exec, a []Value) (Value, bool) {
		if ss, ok := concStrs(a[0]); ok {
			return filepath.Join(ss...), true
		}
		return nil, false
	},
	"path/filepath.Dir": func(ex *Exec, a []Value) (Value, bool) {
		if s, ok := concStr(a[0]); ok {
			return filepath.Dir(s), true
		}
		return nil, false
	},
	"path/filepath.Base": func(ex *Exec, a []Value) (Value, bool) {
		if s, ok := concStr(a[0]); ok {
			return filepath.Base(s), true
		}
		return nil, false
	},
	"strings.Split": func(ex *Exec, a []Value) (Value, bool) {
		s, ok1 := concStr(a[0])
		sep, ok2 := concStr(a[1])
		if ok1 && ok2 {
			parts := strings.Split(s, sep)
			out := make([]Value, len(parts))
			for i, p := range parts {
				out[i] = p
			}
			return out, true
		}
		return nil, false
	},
	"strings.Join": func(ex *Exec, a []Value) (Value, bool) {
		ss, ok1 := concStrs(a[0])
		sep, ok2 := concStr(a[1])
		if ok1 && ok2 {
			return strings.Join(ss, sep), true
		}
		return nil, false
	},
	"strings.Trim": func(ex *Exec, a []Value) (Value, bool) {
		s, ok1 := concStr(a[0])
		c, ok2 := concStr(a[1])
		if ok1 && ok2 {
			return strings.Trim(s, c), true
		}
		return nil, false
	},
	"encoding/hex.EncodeToString": func(ex *Exec, a []Value) (Value, bool) {
		if b, ok := goBytes(a[0].([]Value)); ok {
			return hex.EncodeToString(b), true
		}
		return nil, false
	},
}
