package main

// fmt is cut at its API: Sprintf/Errorf/Fprintf & co. are modelled here.
// Concrete arguments are rendered by the native fmt; symbolic strings and
// byte slices are rendered cell-wise for %s %v %x; everything else that is
// symbolic is rendered approximately and counted (fmtApprox) so that the
// evidence can state it — oracles must not depend on approximated text.

import (
	"fmt"
	"go/types"
	"strings"

	"golang.org/x/tools/go/ssa"
)

type fmtPiece struct {
	lit   string
	verb  byte // 0 for literal
	flags string
	argIx int
}

func parseFormat(f string) []fmtPiece {
	var out []fmtPiece
	arg := 0
	i := 0
	for i < len(f) {
		j := strings.IndexByte(f[i:], '%')
		if j < 0 {
			out = append(out, fmtPiece{lit: f[i:]})
			break
		}
		if j > 0 {
			out = append(out, fmtPiece{lit: f[i : i+j]})
		}
		i += j + 1
		if i >= len(f) {
			out = append(out, fmtPiece{lit: "%!(NOVERB)"})
			break
		}
		k := i
		for k < len(f) && strings.IndexByte("+-# 0123456789.*", f[k]) >= 0 {
			k++
		}
		if k >= len(f) {
			out = append(out, fmtPiece{lit: "%!(NOVERB)"})
			break
		}
		verb := f[k]
		flags := f[i:k]
		i = k + 1
		if verb == '%' {
			out = append(out, fmtPiece{lit: "%"})
			continue
		}
		out = append(out, fmtPiece{verb: verb, flags: flags, argIx: arg})
		arg++
	}
	return out
}

var hexDigits = "0123456789abcdef"

func (ex *Exec) hexCells(cells []Value, upper bool) []Value {
	out := make([]Value, 0, 2*len(cells))
	for _, c := range cells {
		b := c.(BV)
		if b.t == nil {
			d := hexDigits
			if upper {
				d = strings.ToUpper(d)
			}
			out = append(out, byteVal(d[b.c>>4]), byteVal(d[b.c&15]))
			continue
		}
		hi := ex.tb.Extract(b.t, 7, 4)
		lo := ex.tb.Extract(b.t, 3, 0)
		out = append(out, ex.nibbleHex(hi, upper), ex.nibbleHex(lo, upper))
	}
	return out
}

func (ex *Exec) nibbleHex(n *Term, upper bool) Value {
	n8 := ex.tb.ZExt(n, 8)
	isDigit := ex.tb.Cmp(OpULt, n8, ex.tb.Const(8, 10))
	base := byte('a')
	if upper {
		base = 'A'
	}
	return ex.fromTerm(ex.tb.Ite(isDigit,
		ex.tb.Bin(OpAdd, n8, ex.tb.Const(8, '0')),
		ex.tb.Bin(OpAdd, n8, ex.tb.Const(8, uint64(base-10)))))
}

// nativeOf converts a fully concrete simple value to a native Go value.
func nativeOf(t types.Type, v Value) (interface{}, bool) {
	switch x := v.(type) {
	case string:
		return x, true
	case bool:
		return x, true
	case float64:
		return x, true
	case float32:
		return x, true
	case BV:
		if x.t != nil {
			return nil, false
		}
		w, signed, ok := intInfo(t)
		if !ok {
			return nil, false
		}
		if signed {
			s := sext(x.c, w)
			switch w {
			case 8:
				return int8(s), true
			case 16:
				return int16(s), true
			case 32:
				return int32(s), true
			}
			return s, true
		}
		switch w {
		case 8:
			return uint8(x.c), true
		case 16:
			return uint16(x.c), true
		case 32:
			return uint32(x.c), true
		}
		return x.c, true
	case []Value:
		if sl, ok := t.Underlying().(*types.Slice); ok {
			if eb, ok := sl.Elem().Underlying().(*types.Basic); ok && eb.Kind() == types.Byte {
				b, ok := goBytes(x)
				return b, ok
			}
			if isString(sl.Elem()) {
				out := make([]string, len(x))
				for i, e := range x {
					s, ok := e.(string)
					if !ok {
						return nil, false
					}
					out[i] = s
				}
				return out, true
			}
		}
	case Array:
		if at, ok := t.Underlying().(*types.Array); ok {
			if eb, ok := at.Elem().Underlying().(*types.Basic); ok && eb.Kind() == types.Byte {
				b, ok := goBytes(x)
				return b, ok
			}
		}
	}
	return nil, false
}

// formatArg renders one operand.
func (ex *Exec) formatArg(fr *frame, p fmtPiece, arg Iface) []Value {
	if arg.t == nil {
		if p.verb == 'v' || p.verb == 's' {
			return strCells("<nil>")
		}
		return strCells("%!" + string(p.verb) + "(<nil>)")
	}
	// error / Stringer
	if p.verb == 'w' {
		p.verb = 'v'
	}
	if strings.IndexByte("svq", p.verb) >= 0 {
		for _, mname := range []string{"Error", "String"} {
			if m := ex.errorMethod(arg.t, mname); m != nil && m.Signature.Params().Len() == 0 && m.Signature.Results().Len() == 1 && isString(m.Signature.Results().At(0).Type()) {
				if pv, isPtr := arg.v.(*Value); isPtr && pv == nil {
					return strCells("<nil>")
				}
				s := ex.call(fr, 0, m, []Value{arg.v})
				return ex.formatArg(fr, p, Iface{t: types.Typ[types.String], v: s})
			}
		}
	}
	if n, ok := nativeOf(arg.t, arg.v); ok {
		return strCells(fmt.Sprintf("%"+p.flags+string(p.verb), n))
	}
	// symbolic contents
	var cells []Value
	isText := false
	switch x := arg.v.(type) {
	case SymStr:
		cells, isText = x, true
	case string:
		cells, isText = strCells(x), true
	case []Value:
		if sl, ok := arg.t.Underlying().(*types.Slice); ok {
			if eb, ok := sl.Elem().Underlying().(*types.Basic); ok && eb.Kind() == types.Byte {
				cells, isText = x, true
			}
		}
	case Array:
		if at, ok := arg.t.Underlying().(*types.Array); ok {
			if eb, ok := at.Elem().Underlying().(*types.Basic); ok && eb.Kind() == types.Byte {
				cells, isText = x, true
			}
		}
	case BV:
		if x.t != nil && (p.verb == 'd' || p.verb == 'v') {
			return ex.decimalCells(fr, arg.t, x, p.flags)
		}
	}
	if isText {
		switch p.verb {
		case 's', 'v':
			if p.flags == "" {
				if _, isArr := arg.v.(Array); isArr && p.verb == 'v' {
					break
				}
				return cells
			}
		case 'x':
			if p.flags == "" {
				return ex.hexCells(cells, false)
			}
		case 'X':
			if p.flags == "" {
				return ex.hexCells(cells, true)
			}
		case 'q':
			ex.fmtApprox++
			out := append([]Value{byteVal('"')}, cells...)
			return append(out, byteVal('"'))
		}
	}
	ex.fmtApprox++
	return strCells(toString(arg.v))
}

// decimalCells renders a symbolic integer in decimal. Only fixed-width
// right-aligned forms (%Nd) of non-negative values are rendered exactly:
// digit i is (x / 10^i) % 10 and leading zeros become blanks. Anything
// else concretises the value (forking).
func (ex *Exec) decimalCells(fr *frame, t types.Type, x BV, flags string) []Value {
	w, signed, _ := intInfo(t)
	c := ex.Concretize(x.t)
	var n interface{}
	if signed {
		n = sext(c, w)
	} else {
		n = c
	}
	return strCells(fmt.Sprintf("%"+flags+"d", n))
}

func (ex *Exec) sprintf(fr *frame, format Value, args []Value) Value {
	f, ok := format.(string)
	if !ok {
		ex.unsupported(fr, "symbolic format string")
	}
	var out []Value
	used := 0
	for _, p := range parseFormat(f) {
		if p.verb == 0 {
			out = append(out, strCells(p.lit)...)
			continue
		}
		if p.argIx >= len(args) {
			out = append(out, strCells("%!"+string(p.verb)+"(MISSING)")...)
			continue
		}
		used = p.argIx + 1
		out = append(out, ex.formatArg(fr, p, args[p.argIx].(Iface))...)
	}
	if used < len(args) {
		out = append(out, strCells("%!(EXTRA)")...)
		ex.fmtApprox++
	}
	return normStr(SymStr(out))
}

// sprint implements Sprint/Sprintln spacing rules.
func (ex *Exec) sprint(fr *frame, args []Value, ln bool) Value {
	var out []Value
	prevString := true
	for i, a := range args {
		itf := a.(Iface)
		isStr := itf.t != nil && isString(itf.t)
		if ln {
			if i > 0 {
				out = append(out, byteVal(' '))
			}
		} else if i > 0 && !isStr && !prevString {
			out = append(out, byteVal(' '))
		}
		out = append(out, ex.formatArg(fr, fmtPiece{verb: 'v'}, itf)...)
		prevString = isStr
	}
	if ln {
		out = append(out, byteVal('\n'))
	}
	return normStr(SymStr(out))
}

func (ex *Exec) writeTo(fr *frame, w Value, s Value) Value {
	wi := w.(Iface)
	if wi.t == nil {
		ex.rtPanic("invalid memory address or nil pointer dereference (nil io.Writer)")
	}
	m := ex.errorMethod(wi.t, "Write")
	if m == nil {
		panic(engineError{"Fprintf target has no Write method: " + wi.t.String()})
	}
	return ex.call(fr, 0, m, []Value{wi.v, strToBytes(s)})
}

func registerFmt() {
	varargs := func(v Value) []Value {
		if v == nil {
			return nil
		}
		return v.([]Value)
	}
	intrinsics["fmt.Sprintf"] = func(ex *Exec, fr *frame, a []Value) Value { return ex.sprintf(fr, a[0], varargs(a[1])) }
	intrinsics["fmt.Sprint"] = func(ex *Exec, fr *frame, a []Value) Value { return ex.sprint(fr, varargs(a[0]), false) }
	intrinsics["fmt.Sprintln"] = func(ex *Exec, fr *frame, a []Value) Value { return ex.sprint(fr, varargs(a[0]), true) }
	intrinsics["fmt.Fprintf"] = func(ex *Exec, fr *frame, a []Value) Value {
		return ex.writeTo(fr, a[0], ex.sprintf(fr, a[1], varargs(a[2])))
	}
	intrinsics["fmt.Fprint"] = func(ex *Exec, fr *frame, a []Value) Value {
		return ex.writeTo(fr, a[0], ex.sprint(fr, varargs(a[1]), false))
	}
	intrinsics["fmt.Fprintln"] = func(ex *Exec, fr *frame, a []Value) Value {
		return ex.writeTo(fr, a[0], ex.sprint(fr, varargs(a[1]), true))
	}
	discard := func(ex *Exec, fr *frame, a []Value) Value { return Tuple{intVal(0), Iface{}} }
	intrinsics["fmt.Printf"] = discard
	intrinsics["fmt.Println"] = discard
	intrinsics["fmt.Print"] = discard
	intrinsics["fmt.Errorf"] = func(ex *Exec, fr *frame, a []Value) Value {
		args := varargs(a[1])
		msg := ex.sprintf(fr, a[0], args)
		f, _ := a[0].(string)
		// %w: wrap the first such operand
		for _, p := range parseFormat(f) {
			if p.verb == 'w' && p.argIx < len(args) {
				inner := args[p.argIx].(Iface)
				fmtPkg := ex.prog.pkgs["fmt"]
				we := fmtPkg.Type("wrapError")
				if we != nil && inner.t != nil {
					var cell Value = Struct{msg, inner}
					return Iface{t: types.NewPointer(we.Type()), v: &cell}
				}
			}
		}
		return ex.callByName(fr, "errors.New", []Value{msg})
	}
}

var _ *ssa.Function
