package main

// SSA interpreter core (structure after x/tools/go/ssa/interp, BSD licence),
// extended with symbolic scalars, explicit run-time checks that fork, lazy
// package initialisation, intrinsics and harness stubs.

import (
	"fmt"
	"go/token"
	"go/types"
	"strings"

	"golang.org/x/tools/go/ssa"
)

type targetPanic struct{ v Value }

type deferred struct {
	fn    Value
	args  []Value
	instr *ssa.Defer
	tail  *deferred
}

type frame struct {
	ex               *Exec
	caller           *frame
	fn               *ssa.Function
	block, prevBlock *ssa.BasicBlock
	env              map[ssa.Value]Value
	locals           []Value
	defers           *deferred
	result           Value
	panicking        bool
	panic            interface{}
	phitemps         []Value
	curInstr         ssa.Instruction
}

type continuation int

const (
	kNext continuation = iota
	kReturn
	kJump
)

func (fr *frame) get(key ssa.Value) Value {
	switch key := key.(type) {
	case nil:
		return nil
	case *ssa.Function:
		return key
	case *ssa.Builtin:
		return key
	case *ssa.Const:
		return constValue(key)
	case *ssa.Global:
		return fr.ex.globalAddr(key)
	}
	if r, ok := fr.env[key]; ok {
		return r
	}
	panic(engineError{fmt.Sprintf("get: no value for %T: %v in %s", key, key.Name(), fr.fn)})
}

func (ex *Exec) stackString() string {
	return ex.curStack
}

func (fr *frame) where() string {
	var sb strings.Builder
	for f := fr; f != nil; f = f.caller {
		pos := token.NoPos
		if f.curInstr != nil {
			pos = f.curInstr.Pos()
		}
		fmt.Fprintf(&sb, "  %s %s\n", f.fn, f.ex.prog.fset.Position(pos))
	}
	return sb.String()
}

func (ex *Exec) unsupported(fr *frame, what string) {
	detail := what
	if fr != nil {
		pos := token.NoPos
		if fr.curInstr != nil {
			pos = fr.curInstr.Pos()
		}
		detail += " in " + fr.fn.String() + " at " + ex.prog.fset.Position(pos).String()
	}
	panic(pathAbort{"unsupported", detail})
}

// rtPanic raises a Go run-time panic in the target program.
func (ex *Exec) rtPanic(msg string) {
	if ex.cur != nil {
		ex.lastPanicWhere = ex.cur.where()
	}
	panic(targetPanic{Iface{t: ex.prog.runtimeErrorType(), v: "runtime error: " + msg}})
}

func (fr *frame) runDefer(d *deferred) {
	var ok bool
	defer func() {
		if !ok {
			r := recover()
			if _, isAbort := r.(pathAbort); isAbort {
				panic(r)
			}
			if _, isEng := r.(engineError); isEng {
				panic(r)
			}
			if _, isT := r.(targetPanic); !isT {
				panic(r)
			}
			fr.panicking = true
			fr.panic = r
		}
	}()
	fr.ex.call(fr, d.instr.Pos(), d.fn, d.args)
	ok = true
}

func (fr *frame) runDefers() {
	for d := fr.defers; d != nil; d = d.tail {
		fr.runDefer(d)
	}
	fr.defers = nil
	if fr.panicking {
		panic(fr.panic)
	}
}

func (ex *Exec) visitInstr(fr *frame, instr ssa.Instruction) continuation {
	switch instr := instr.(type) {
	case *ssa.DebugRef:
	case *ssa.UnOp:
		fr.env[instr] = ex.unop(fr, instr, fr.get(instr.X))
	case *ssa.BinOp:
		fr.env[instr] = ex.binop(fr, instr.Op, instr.X.Type(), fr.get(instr.X), fr.get(instr.Y))
	case *ssa.Call:
		fn, args := ex.prepareCall(fr, &instr.Call)
		fr.env[instr] = ex.call(fr, instr.Pos(), fn, args)
	case *ssa.ChangeInterface:
		fr.env[instr] = fr.get(instr.X)
	case *ssa.ChangeType:
		fr.env[instr] = fr.get(instr.X)
	case *ssa.Convert:
		fr.env[instr] = ex.conv(fr, instr.Type(), instr.X.Type(), fr.get(instr.X))
	case *ssa.SliceToArrayPointer:
		fr.env[instr] = ex.sliceToArrayPointer(instr.Type(), instr.X.Type(), fr.get(instr.X))
	case *ssa.MakeInterface:
		fr.env[instr] = Iface{t: instr.X.Type(), v: fr.get(instr.X)}
	case *ssa.Extract:
		fr.env[instr] = fr.get(instr.Tuple).(Tuple)[instr.Index]
	case *ssa.Slice:
		fr.env[instr] = ex.slice(fr.get(instr.X), fr.get(instr.Low), fr.get(instr.High), fr.get(instr.Max))
	case *ssa.Return:
		switch len(instr.Results) {
		case 0:
		case 1:
			fr.result = fr.get(instr.Results[0])
		default:
			res := make(Tuple, 0, len(instr.Results))
			for _, r := range instr.Results {
				res = append(res, fr.get(r))
			}
			fr.result = res
		}
		fr.block = nil
		return kReturn
	case *ssa.RunDefers:
		fr.runDefers()
	case *ssa.Panic:
		panic(targetPanic{fr.get(instr.X)})
	case *ssa.Send:
		ex.unsupported(fr, "channel send")
	case *ssa.Store:
		ex.storeAt(fr, deref(instr.Addr.Type()), fr.get(instr.Addr), fr.get(instr.Val))
	case *ssa.If:
		succ := 1
		if ex.truth(fr.get(instr.Cond)) {
			succ = 0
		}
		fr.prevBlock, fr.block = fr.block, fr.block.Succs[succ]
		return kJump
	case *ssa.Jump:
		fr.prevBlock, fr.block = fr.block, fr.block.Succs[0]
		return kJump
	case *ssa.Defer:
		fn, args := ex.prepareCall(fr, &instr.Call)
		defers := &fr.defers
		if instr.DeferStack != nil {
			if into := fr.get(instr.DeferStack); into != nil {
				defers = into.(**deferred)
			}
		}
		*defers = &deferred{fn: fn, args: args, instr: instr, tail: *defers}
	case *ssa.Go:
		fn, args := ex.prepareCall(fr, &instr.Call)
		ex.goStmt(fr, instr, fn, args)
	case *ssa.MakeChan:
		ex.chanSeq++
		fr.env[instr] = &Chan{id: ex.chanSeq}
	case *ssa.Alloc:
		var addr *Value
		if instr.Heap {
			addr = new(Value)
			fr.env[instr] = addr
		} else {
			addr = fr.env[instr].(*Value)
		}
		*addr = zero(deref(instr.Type()))
	case *ssa.MakeSlice:
		n := ex.concInt(fr.get(instr.Len))
		c := ex.concInt(fr.get(instr.Cap))
		if n < 0 || c < n {
			ex.rtPanic("makeslice: len out of range")
		}
		if c > 1<<24 {
			ex.unsupported(fr, "makeslice: very large slice")
		}
		sl := make([]Value, c)
		z := zero(instr.Type().Underlying().(*types.Slice).Elem())
		switch z.(type) {
		case Struct, Array:
			tElt := instr.Type().Underlying().(*types.Slice).Elem()
			for i := range sl {
				sl[i] = zero(tElt)
			}
		default:
			for i := range sl {
				sl[i] = z
			}
		}
		fr.env[instr] = sl[:n]
	case *ssa.MakeMap:
		fr.env[instr] = &Map{}
	case *ssa.Range:
		fr.env[instr] = ex.rangeIter(fr, fr.get(instr.X), instr.X.Type())
	case *ssa.Next:
		fr.env[instr] = fr.get(instr.Iter).(iter).next()
	case *ssa.FieldAddr:
		p := ex.ptr(fr, fr.get(instr.X))
		fr.env[instr] = &(*p).(Struct)[instr.Field]
	case *ssa.Field:
		fr.env[instr] = fr.get(instr.X).(Struct)[instr.Field]
	case *ssa.IndexAddr:
		x := fr.get(instr.X)
		var cells []Value
		switch x := x.(type) {
		case []Value:
			cells = x
		case *Value:
			if x == nil {
				ex.rtPanic("invalid memory address or nil pointer dereference")
			}
			cells = (*x).(Array)
		default:
			panic(engineError{fmt.Sprintf("unexpected x type in IndexAddr: %T", x)})
		}
		fr.env[instr] = ex.indexAddr(fr, cells, fr.get(instr.Index), instr.Index.Type())
	case *ssa.Index:
		x := fr.get(instr.X)
		switch x := x.(type) {
		case Array:
			fr.env[instr] = ex.indexValue(fr, x, fr.get(instr.Index), instr.Index.Type())
		case string, SymStr:
			fr.env[instr] = ex.indexValue(fr, strCells(x), fr.get(instr.Index), instr.Index.Type())
		default:
			panic(engineError{fmt.Sprintf("unexpected x type in Index: %T", x)})
		}
	case *ssa.Lookup:
		fr.env[instr] = ex.lookup(fr, instr, fr.get(instr.X), fr.get(instr.Index))
	case *ssa.MapUpdate:
		m := fr.get(instr.Map).(*Map)
		if m == nil {
			panic(targetPanic{Iface{t: ex.prog.runtimeErrorType(), v: "assignment to entry in nil map"}})
		}
		kt := instr.Map.Type().Underlying().(*types.Map).Key()
		ex.mapInsert(m, kt, fr.get(instr.Key), copyVal(fr.get(instr.Value)))
	case *ssa.TypeAssert:
		fr.env[instr] = ex.typeAssert(instr, fr.get(instr.X).(Iface))
	case *ssa.MakeClosure:
		bindings := make([]Value, 0, len(instr.Bindings))
		for _, b := range instr.Bindings {
			bindings = append(bindings, fr.get(b))
		}
		fr.env[instr] = &Closure{instr.Fn.(*ssa.Function), bindings}
	case *ssa.Phi:
		panic(engineError{"unreachable phi"})
	case *ssa.Select:
		ex.unsupported(fr, "select")
	default:
		panic(engineError{fmt.Sprintf("unexpected instruction: %T", instr)})
	}
	return kNext
}

func (ex *Exec) prepareCall(fr *frame, call *ssa.CallCommon) (fn Value, args []Value) {
	v := fr.get(call.Value)
	if call.Method == nil {
		fn = v
	} else {
		recv := v.(Iface)
		if recv.t == nil {
			ex.rtPanic("invalid memory address or nil pointer dereference (method on nil interface)")
		}
		f := ex.prog.prog.LookupMethod(recv.t, call.Method.Pkg(), call.Method.Name())
		if f == nil {
			panic(engineError{fmt.Sprintf("method set for dynamic type %v does not contain %s", recv.t, call.Method)})
		}
		fn = f
		args = append(args, recv.v)
	}
	for _, arg := range call.Args {
		args = append(args, fr.get(arg))
	}
	return
}

func (ex *Exec) call(caller *frame, callpos token.Pos, fn Value, args []Value) Value {
	switch fn := fn.(type) {
	case *ssa.Function:
		if fn == nil {
			ex.rtPanic("call of nil function")
		}
		return ex.callSSA(caller, callpos, fn, args, nil)
	case *Closure:
		if fn == nil {
			ex.rtPanic("invalid memory address or nil pointer dereference (call of nil func)")
		}
		return ex.callSSA(caller, callpos, fn.Fn, args, fn.Env)
	case *ssa.Builtin:
		return ex.callBuiltin(caller, callpos, fn, args)
	}
	panic(engineError{fmt.Sprintf("cannot call %T", fn)})
}

// callSSARaw interprets fn's own body even when an intrinsic of the same
// name exists (used by intrinsics that fall back to the real code).
func (ex *Exec) callSSARaw(caller *frame, fn *ssa.Function, args []Value) Value {
	ex.rawCall = fn
	return ex.callSSA(caller, token.NoPos, fn, args, nil)
}

func (ex *Exec) callTop(entry *ssa.Function) {
	ex.callSSA(nil, token.NoPos, entry, nil, nil)
}

func (ex *Exec) callSSA(caller *frame, callpos token.Pos, fn *ssa.Function, args []Value, env []Value) Value {
	fr := &frame{ex: ex, caller: caller, fn: fn}
	if fn.Synthetic == "package initializer" && caller != nil {
		return nil // other packages are initialised lazily on first use
	}
	if ex.prog.isTarget(fn.Pkg) {
		ex.funcs[fn.String()]++
	}
	if fn.Parent() == nil {
		name := fn.String()
		if stub := ex.prog.stubs[name]; stub != nil && stub != fn {
			if !(caller != nil && ex.prog.isStubCaller(caller.fn, name)) {
				return ex.callSSA(caller, callpos, stub, args, nil)
			}
		}
		if ex.rawCall == fn {
			ex.rawCall = nil
		} else if intr := intrinsics[name]; intr != nil {
			return intr(ex, fr, args)
		}
		if fp := fastPaths[name]; fp != nil {
			if v, ok := fp(ex, args); ok {
				return v
			}
		}
		if fn.Blocks == nil {
			// maybe a generic or synthetic with origin
			if ex.initing > 0 {
				return zero(fn.Signature.Results())
			}
			ex.unsupported(caller, "no code for function: "+name)
		}
		if pkg := fn.Pkg; pkg != nil && cutPackages[pkg.Pkg.Path()] && fn.Synthetic != "package initializer" && !allowInCut(fn) {
			if ex.initing > 0 {
				return zero(fn.Signature.Results())
			}
			ex.unsupported(caller, "call into cut package: "+name)
		}
	} else if fn.Blocks == nil {
		ex.unsupported(caller, "no code for function: "+fn.String())
	}
	if fn.TypeParams().Len() > 0 && len(fn.TypeArgs()) == 0 {
		panic(engineError{"uninstantiated generic function " + fn.String()})
	}
	ex.depth++
	if ex.depth > ex.maxDepth {
		panic(pathAbort{"unwind", "call depth exceeded in " + fn.String()})
	}
	defer func() { ex.depth-- }()

	fr.env = make(map[ssa.Value]Value, 16)
	fr.block = fn.Blocks[0]
	fr.locals = make([]Value, len(fn.Locals))
	for i, l := range fn.Locals {
		fr.locals[i] = zero(deref(l.Type()))
		fr.env[l] = &fr.locals[i]
	}
	for i, p := range fn.Params {
		fr.env[p] = args[i]
	}
	for i, fv := range fn.FreeVars {
		fr.env[fv] = env[i]
	}
	for fr.block != nil {
		ex.runFrame(fr)
	}
	return fr.result
}

func (ex *Exec) runFrame(fr *frame) {
	defer func() {
		if fr.block == nil {
			return // normal return
		}
		r := recover()
		switch r.(type) {
		case targetPanic:
		default:
			// engine-level: remember where, then propagate untouched
			if ex.curStack == "" {
				ex.curStack = fr.where()
			}
			panic(r)
		}
		fr.panicking = true
		fr.panic = r
		fr.runDefers() // re-panics unless recovered
		fr.block = fr.fn.Recover
		if fr.block == nil {
			// recovered, no named results: return zero values
			fr.result = zero(fr.fn.Signature.Results())
			if fr.fn.Signature.Results().Len() == 0 {
				fr.result = nil
			}
		}
	}()
	for {
		nonPhis := ex.executePhis(fr)
		for _, instr := range nonPhis {
			ex.steps++
			if ex.steps > ex.maxSteps {
				panic(pathAbort{"unwind", fmt.Sprintf("step budget %d exceeded in %s", ex.maxSteps, fr.fn)})
			}
			fr.curInstr = instr
			ex.cur = fr
			if ex.stepProf != nil {
				ex.stepProf[fr.fn]++
			}
			if ex.visitInstr(fr, instr) == kReturn {
				return
			}
		}
	}
}

func (ex *Exec) executePhis(fr *frame) []ssa.Instruction {
	firstNonPhi := -1
	for i, instr := range fr.block.Instrs {
		if _, ok := instr.(*ssa.Phi); !ok {
			firstNonPhi = i
			break
		}
	}
	nonPhis := fr.block.Instrs[firstNonPhi:]
	if firstNonPhi > 0 {
		phis := fr.block.Instrs[:firstNonPhi]
		predIndex := -1
		for i, p := range fr.block.Preds {
			if p == fr.prevBlock {
				predIndex = i
				break
			}
		}
		fr.phitemps = fr.phitemps[:0]
		for _, phi := range phis {
			fr.phitemps = append(fr.phitemps, fr.get(phi.(*ssa.Phi).Edges[predIndex]))
		}
		for i, phi := range phis {
			fr.env[phi.(*ssa.Phi)] = fr.phitemps[i]
		}
	}
	return nonPhis
}

func (ex *Exec) doRecover(caller *frame) Value {
	if caller != nil && !caller.panicking && caller.caller != nil && caller.caller.panicking {
		caller.caller.panicking = false
		p := caller.caller.panic
		caller.caller.panic = nil
		switch p := p.(type) {
		case targetPanic:
			return p.v
		default:
			panic(engineError{fmt.Sprintf("unexpected panic type %T in recover()", p)})
		}
	}
	return Iface{}
}

func (ex *Exec) panicString(v Value) string {
	if itf, ok := v.(Iface); ok {
		if s, ok := itf.v.(string); ok {
			return s
		}
		if itf.t != nil {
			// error value: try its Error method concretely
			if m := ex.prog.prog.LookupMethod(itf.t, nil, "Error"); m != nil {
				var s string
				func() {
					defer func() {
						if r := recover(); r != nil {
							s = toString(itf.v)
						}
					}()
					s = toString(ex.call(nil, token.NoPos, m, []Value{itf.v}))
				}()
				return s
			}
		}
		return toString(itf.v)
	}
	return toString(v)
}

// ---------- globals and lazy package initialisation ----------

func (ex *Exec) globalAddr(g *ssa.Global) *Value {
	pkg := g.Pkg
	shared := !ex.prog.isTarget(pkg)
	if shared {
		if a, ok := ex.shared[g]; ok {
			return a
		}
		ex.ensureInit(pkg, true)
		return ex.shared[g]
	}
	if a, ok := ex.globals[g]; ok {
		return a
	}
	ex.ensureInit(pkg, false)
	return ex.globals[g]
}

func (ex *Exec) ensureInit(pkg *ssa.Package, shared bool) {
	tab := ex.globals
	done := ex.inited
	if shared {
		tab = ex.shared
		done = ex.sharedIn
	}
	if done[pkg] {
		return
	}
	done[pkg] = true
	if !shared {
		if snap := ex.snaps[pkg]; snap != nil && snap.ok {
			ex.restoreSnapshot(pkg, snap)
			return
		}
	}
	for _, m := range pkg.Members {
		if g, ok := m.(*ssa.Global); ok {
			cell := zero(deref(g.Type()))
			tab[g] = &cell
		}
	}
	if noInitPackages[pkg.Pkg.Path()] {
		return
	}
	initFn := pkg.Func("init")
	if initFn == nil || initFn.Blocks == nil {
		return
	}
	// run the package's own initialiser; calls to other packages' init
	// functions are skipped (they are initialised on first use)
	ex.initing++
	saveSteps := ex.steps
	savedDepth := ex.depth
	func() {
		defer func() {
			ex.initing--
			ex.depth = savedDepth
			if shared {
				ex.steps = saveSteps
			}
		}()
		nIn, nTr, nInit := len(ex.inputs), len(ex.trace), len(ex.inited)
		ex.callSSA(nil, token.NoPos, initFn, nil, nil)
		if !shared && ex.snaps[pkg] == nil && nIn == len(ex.inputs) && nTr == len(ex.trace) && nInit == len(ex.inited) && ex.initing == 1 {
			// deterministic, input-free and self-contained: reuse on later paths
			ex.takeSnapshot(pkg)
		}
	}()
}

type pendingGo struct {
	fr   *frame
	fn   Value
	args []Value
}

// goStmt: the sequential executor has no scheduler. A started goroutine is
// recorded and run to completion only when the starting goroutine blocks in
// a receive on a channel that is not yet closed (one legal schedule). This is
// meant for goroutines whose only interaction is through stubs and a final
// close of a "done" channel (testscript's background commands); anything
// else a goroutine does with channels is reported as unsupported.
func (ex *Exec) goStmt(fr *frame, instr *ssa.Go, fn Value, args []Value) {
	ex.pendingGo = append(ex.pendingGo, pendingGo{fr, fn, args})
}

// chanRecv implements <-ch for the deferred-goroutine model.
func (ex *Exec) chanRecv(fr *frame, instr *ssa.UnOp, x Value) Value {
	ch, _ := x.(*Chan)
	if ch == nil {
		ex.unsupported(fr, "receive from a nil channel (blocks forever)")
	}
	for !ch.closed {
		if len(ex.pendingGo) == 0 || ex.goDepth > 0 {
			ex.unsupported(fr, "channel receive that no deferred goroutine completes (would block)")
		}
		g := ex.pendingGo[0]
		ex.pendingGo = ex.pendingGo[1:]
		ex.goDepth++
		ex.call(g.fr, token.NoPos, g.fn, g.args)
		ex.goDepth--
	}
	et := instr.X.Type().Underlying().(*types.Chan).Elem()
	if instr.CommaOk {
		return Tuple{zero(et), false}
	}
	return zero(et)
}
