package main

// Engine-side models: the verifrt harness API, the assembly kernels under
// bytes/strings, sync primitives (sequential), errors.Is/As.

import (
	"go/types"
	"strings"

	"golang.org/x/tools/go/ssa"
)

type intrinsic func(ex *Exec, fr *frame, args []Value) Value

var intrinsics map[string]intrinsic

const rtp = rtPkgPath + "."

func init() {
	intrinsics = map[string]intrinsic{
		// ----- harness API -----
		rtp + "Byte":     func(ex *Exec, fr *frame, a []Value) Value { return ex.fromTerm(ex.newInput("b", 8)) },
		rtp + "Bool":     func(ex *Exec, fr *frame, a []Value) Value { return ex.fromTerm(ex.newInput("p", 0)) },
		rtp + "Int64":    func(ex *Exec, fr *frame, a []Value) Value { return ex.fromTerm(ex.newInput("q", 64)) },
		rtp + "Int":      func(ex *Exec, fr *frame, a []Value) Value { return ex.fromTerm(ex.newInput("q", 64)) },
		rtp + "Uint64":   func(ex *Exec, fr *frame, a []Value) Value { return ex.fromTerm(ex.newInput("q", 64)) },
		rtp + "Int32":    func(ex *Exec, fr *frame, a []Value) Value { return ex.fromTerm(ex.newInput("d", 32)) },
		rtp + "Uint32":   func(ex *Exec, fr *frame, a []Value) Value { return ex.fromTerm(ex.newInput("d", 32)) },
		rtp + "IntRange": rtIntRange,
		rtp + "Bytes":    rtBytes,
		rtp + "String":   func(ex *Exec, fr *frame, a []Value) Value { return bytesToStr(rtBytes(ex, fr, a).([]Value)) },
		rtp + "Assume": func(ex *Exec, fr *frame, a []Value) Value {
			ex.Assume(ex.boolTerm(a[0]))
			return nil
		},
		rtp + "Assert": func(ex *Exec, fr *frame, a []Value) Value {
			ex.Assert(ex.boolTerm(a[0]), a[1].(string))
			return nil
		},
		rtp + "Fail": func(ex *Exec, fr *frame, a []Value) Value {
			ex.Assert(ex.tb.ff, a[0].(string))
			return nil
		},
		rtp + "Reach": func(ex *Exec, fr *frame, a []Value) Value {
			ex.reached[a[0].(string)] = true
			return nil
		},
		rtp + "Param": func(ex *Exec, fr *frame, a []Value) Value {
			if v, ok := ex.params[a[0].(string)]; ok {
				return intVal(v)
			}
			return a[1]
		},
		rtp + "And": func(ex *Exec, fr *frame, a []Value) Value {
			return ex.fromTerm(ex.tb.BAnd(ex.boolTerm(a[0]), ex.boolTerm(a[1])))
		},
		rtp + "Or": func(ex *Exec, fr *frame, a []Value) Value {
			return ex.fromTerm(ex.tb.BOr(ex.boolTerm(a[0]), ex.boolTerm(a[1])))
		},
		rtp + "Not": func(ex *Exec, fr *frame, a []Value) Value { return ex.not(a[0]) },
		rtp + "Implies": func(ex *Exec, fr *frame, a []Value) Value {
			return ex.fromTerm(ex.tb.BOr(ex.tb.BNot(ex.boolTerm(a[0])), ex.boolTerm(a[1])))
		},
		rtp + "Ite": func(ex *Exec, fr *frame, a []Value) Value {
			c := ex.boolTerm(a[0])
			return ex.fromTerm(ex.tb.Ite(c, ex.term(a[1].(BV)), ex.term(a[2].(BV))))
		},
		rtp + "IteByte": func(ex *Exec, fr *frame, a []Value) Value {
			c := ex.boolTerm(a[0])
			return ex.fromTerm(ex.tb.Ite(c, ex.term(a[1].(BV)), ex.term(a[2].(BV))))
		},
		rtp + "BytesEq": func(ex *Exec, fr *frame, a []Value) Value {
			return ex.fromTerm(ex.cellsEq(a[0].([]Value), a[1].([]Value)))
		},
		rtp + "SameState": func(ex *Exec, fr *frame, a []Value) Value {
			return ex.fromTerm(ex.deepEq(a[0], a[1]))
		},
		rtp + "StrEq": func(ex *Exec, fr *frame, a []Value) Value {
			return ex.fromTerm(ex.strEq(a[0], a[1]))
		},
		rtp + "Observe": func(ex *Exec, fr *frame, a []Value) Value {
			ex.obs = append(ex.obs, obsRec{a[0].(string), a[1]})
			return nil
		},
		rtp + "ObserveBytes": func(ex *Exec, fr *frame, a []Value) Value {
			ex.obs = append(ex.obs, obsRec{a[0].(string), bytesToStr(a[1].([]Value))})
			return nil
		},
		rtp + "ObserveInt": func(ex *Exec, fr *frame, a []Value) Value {
			ex.obs = append(ex.obs, obsRec{a[0].(string), a[1]})
			return nil
		},
		rtp + "ExpectPanic": func(ex *Exec, fr *frame, a []Value) Value {
			ex.expectPanic = a[0].(bool)
			return nil
		},
		rtp + "Symbolic": func(ex *Exec, fr *frame, a []Value) Value { return true },
		rtp + "Concretize": func(ex *Exec, fr *frame, a []Value) Value {
			return intVal(int(ex.concInt(a[0])))
		},
		rtp + "ConcretizeByte": func(ex *Exec, fr *frame, a []Value) Value {
			b := a[0].(BV)
			if b.t == nil {
				return b
			}
			return mkBV(8, ex.Concretize(b.t))
		},
		rtp + "IsConcrete": func(ex *Exec, fr *frame, a []Value) Value {
			for _, c := range a[0].([]Value) {
				if c.(BV).t != nil {
					return false
				}
			}
			return true
		},
		rtp + "Hash": rtHash,
		rtp + "Stop": func(ex *Exec, fr *frame, a []Value) Value { panic(pathAbort{"stop", ""}) },

		// ----- assembly kernels -----
		"internal/bytealg.IndexByte":       func(ex *Exec, fr *frame, a []Value) Value { return ex.indexByte(a[0].([]Value), a[1].(BV)) },
		"internal/bytealg.IndexByteString": func(ex *Exec, fr *frame, a []Value) Value { return ex.indexByte(strCells(a[0]), a[1].(BV)) },
		"internal/bytealg.Count":           func(ex *Exec, fr *frame, a []Value) Value { return ex.countByte(a[0].([]Value), a[1].(BV)) },
		"internal/bytealg.CountString":     func(ex *Exec, fr *frame, a []Value) Value { return ex.countByte(strCells(a[0]), a[1].(BV)) },
		"internal/bytealg.Equal": func(ex *Exec, fr *frame, a []Value) Value {
			return ex.fromTerm(ex.cellsEq(a[0].([]Value), a[1].([]Value)))
		},
		"internal/bytealg.Compare": func(ex *Exec, fr *frame, a []Value) Value {
			return ex.compareCells(a[0].([]Value), a[1].([]Value))
		},
		"internal/bytealg.CompareString": func(ex *Exec, fr *frame, a []Value) Value {
			return ex.compareCells(strCells(a[0]), strCells(a[1]))
		},
		"internal/bytealg.MakeNoZero": func(ex *Exec, fr *frame, a []Value) Value {
			n := ex.concInt(a[0])
			out := make([]Value, n)
			for i := range out {
				out[i] = byteVals[0]
			}
			return out
		},
		"internal/stringslite.Index": func(ex *Exec, fr *frame, a []Value) Value { return ex.indexCells(strCells(a[0]), strCells(a[1])) },
		"strings.Index":              func(ex *Exec, fr *frame, a []Value) Value { return ex.indexCells(strCells(a[0]), strCells(a[1])) },
		"bytes.Index":                func(ex *Exec, fr *frame, a []Value) Value { return ex.indexCells(a[0].([]Value), a[1].([]Value)) },
		"strings.LastIndex":          func(ex *Exec, fr *frame, a []Value) Value { return ex.lastIndexCells(strCells(a[0]), strCells(a[1])) },
		"bytes.LastIndex":            func(ex *Exec, fr *frame, a []Value) Value { return ex.lastIndexCells(a[0].([]Value), a[1].([]Value)) },
		"internal/stringslite.Clone": func(ex *Exec, fr *frame, a []Value) Value { return a[0] },
		"strings.Clone":              func(ex *Exec, fr *frame, a []Value) Value { return a[0] },
		"(*strings.Builder).String": func(ex *Exec, fr *frame, a []Value) Value {
			b := (*a[0].(*Value)).(Struct)
			return bytesToStr(b[1].([]Value))
		},
		"(*strings.Builder).copyCheck": func(ex *Exec, fr *frame, a []Value) Value { return nil },
		"internal/abi.NoEscape":        func(ex *Exec, fr *frame, a []Value) Value { return a[0] },
		"internal/abi.Escape":          func(ex *Exec, fr *frame, a []Value) Value { return a[0] },
		"internal/race.Enabled":        nil,

		// ----- sync (sequential executor: no contention) -----
		"(*sync.Mutex).Lock":      nop,
		"(*sync.Mutex).Unlock":    nop,
		"(*sync.Mutex).TryLock":   func(ex *Exec, fr *frame, a []Value) Value { return true },
		"(*sync.RWMutex).Lock":    nop,
		"(*sync.RWMutex).Unlock":  nop,
		"(*sync.RWMutex).RLock":   nop,
		"(*sync.RWMutex).RUnlock": nop,
		"(*sync.WaitGroup).Add":   nop,
		"(*sync.WaitGroup).Done":  nop,
		"(*sync.WaitGroup).Wait":  nop,
		"(*sync.Once).Do": func(ex *Exec, fr *frame, a []Value) Value {
			p := a[0].(*Value)
			if ex.onceDone == nil {
				ex.onceDone = map[*Value]bool{}
			}
			if ex.onceDone[p] {
				return nil
			}
			ex.onceDone[p] = true
			ex.call(fr, 0, a[1], nil)
			return nil
		},
		"runtime.SetFinalizer": nop,
		"runtime.KeepAlive":    nop,
		"runtime.GC":           nop,
		"runtime.Gosched":      nop,

		// flag: definitions return a cell holding the default value
		"flag.Bool":     flagVar,
		"flag.String":   flagVar,
		"flag.Int":      flagVar,
		"flag.Duration": flagVar,
		"flag.Parse":    nop,

		"errors.Is": errorsIs,
		"errors.As": errorsAs,
	}
	delete(intrinsics, "internal/race.Enabled")
	registerFmt()
	registerAtomic()
}

func flagVar(ex *Exec, fr *frame, a []Value) Value {
	cell := new(Value)
	*cell = a[1]
	return cell
}

func nop(ex *Exec, fr *frame, a []Value) Value { return nil }

func rtIntRange(ex *Exec, fr *frame, a []Value) Value {
	lo, hi := asInt(a[0]), asInt(a[1])
	if hi < lo {
		panic(pathAbort{"assume", "empty IntRange"})
	}
	if lo == hi {
		return intVal(lo)
	}
	v := ex.newInput("r", 64)
	ex.Assume(ex.tb.BAnd(
		ex.tb.Cmp(OpSLe, ex.tb.Const(64, uint64(lo)), v),
		ex.tb.Cmp(OpSLe, v, ex.tb.Const(64, uint64(hi)))))
	c := ex.Concretize(v)
	return mkBV(64, c)
}

func rtBytes(ex *Exec, fr *frame, a []Value) Value {
	n := asInt(a[0])
	out := make([]Value, n)
	for i := range out {
		out[i] = ex.fromTerm(ex.newInput("b", 8))
	}
	return out
}

// rtHash: SHA-256 modelled as an injective function with digests drawn
// from a fixed pool: the k-th distinct input (distinctness decided by the
// solver: the path forks on equality with each earlier input of the same
// length) gets pool digest k. Only (in)equality of digests is explored;
// other bit patterns of real digests are outside the claim.
func poolDigest(k int) Array {
	out := make(Array, 32)
	for j := range out {
		out[j] = byteVal(byte(k*37 + j*11 + 5))
	}
	out[0] = byteVal(byte(0xd0 + k))
	return out
}

func rtHash(ex *Exec, fr *frame, a []Value) Value {
	in := append([]Value(nil), a[0].([]Value)...)
	for i, prev := range ex.hashIn {
		if len(prev) != len(in) {
			continue
		}
		if ex.Decide(ex.cellsEq(prev, in)) {
			return poolDigest(i)
		}
	}
	ex.hashIn = append(ex.hashIn, in)
	if len(ex.hashIn) > 40 {
		ex.unsupported(fr, "more than 40 distinct hash inputs on one path")
	}
	return poolDigest(len(ex.hashIn) - 1)
}

// ---------- byte kernels ----------

func (ex *Exec) indexByte(cells []Value, c BV) Value {
	for i, x := range cells {
		xb := x.(BV)
		if xb.t == nil && c.t == nil {
			if xb.c == c.c {
				return intVal(i)
			}
			continue
		}
		if ex.Decide(ex.tb.Eq(ex.term(xb), ex.term(c))) {
			return intVal(i)
		}
	}
	return intVal(-1)
}

func (ex *Exec) countByte(cells []Value, c BV) Value {
	n := ex.tb.Const(64, 0)
	for _, x := range cells {
		eq := ex.tb.Eq(ex.term(x.(BV)), ex.term(c))
		n = ex.tb.Bin(OpAdd, n, ex.tb.Ite(eq, ex.tb.Const(64, 1), ex.tb.Const(64, 0)))
	}
	return ex.fromTerm(n)
}

func (ex *Exec) indexCells(s, sep []Value) Value {
	n := len(sep)
	for i := 0; i+n <= len(s); i++ {
		if ex.Decide(ex.cellsEq(s[i:i+n], sep)) {
			return intVal(i)
		}
	}
	return intVal(-1)
}

func (ex *Exec) lastIndexCells(s, sep []Value) Value {
	n := len(sep)
	for i := len(s) - n; i >= 0; i-- {
		if ex.Decide(ex.cellsEq(s[i:i+n], sep)) {
			return intVal(i)
		}
	}
	return intVal(-1)
}

func (ex *Exec) compareCells(a, b []Value) Value {
	lt := ex.strLess(SymStr(a), SymStr(b), false)
	eq := ex.tb.ff
	if len(a) == len(b) {
		eq = ex.cellsEq(a, b)
	}
	neg1 := ex.tb.Const(64, ^uint64(0))
	return ex.fromTerm(ex.tb.Ite(lt, neg1, ex.tb.Ite(eq, ex.tb.Const(64, 0), ex.tb.Const(64, 1))))
}

// ---------- errors.Is / errors.As ----------

func (ex *Exec) errorMethod(t types.Type, name string) *ssa.Function {
	ms := ex.prog.prog.MethodSets.MethodSet(t)
	for i := 0; i < ms.Len(); i++ {
		if ms.At(i).Obj().Name() == name {
			return ex.prog.prog.MethodValue(ms.At(i))
		}
	}
	return nil
}

func errorsIs(ex *Exec, fr *frame, a []Value) Value {
	err, target := a[0].(Iface), a[1].(Iface)
	if err.t == nil || target.t == nil {
		return err.t == nil && target.t == nil
	}
	comparable := types.Comparable(target.t)
	return ex.errIs(fr, err, target, comparable, 0)
}

func (ex *Exec) errIs(fr *frame, err, target Iface, comparable bool, depth int) Value {
	for depth < 50 {
		depth++
		if comparable && sameType(err.t, target.t) {
			if ex.truth(ex.equals(err.t, err.v, target.v)) {
				return true
			}
		}
		if m := ex.errorMethod(err.t, "Is"); m != nil && m.Signature.Params().Len() == 1 && m.Signature.Results().Len() == 1 {
			if ex.truth(ex.call(fr, 0, m, []Value{err.v, target})) {
				return true
			}
		}
		m := ex.errorMethod(err.t, "Unwrap")
		if m == nil {
			return false
		}
		res := ex.call(fr, 0, m, []Value{err.v})
		switch r := res.(type) {
		case Iface:
			if r.t == nil {
				return false
			}
			err = r
		case []Value:
			for _, e := range r {
				ei := e.(Iface)
				if ei.t == nil {
					continue
				}
				if ex.truth(ex.errIs(fr, ei, target, comparable, depth)) {
					return true
				}
			}
			return false
		default:
			return false
		}
	}
	return false
}

func errorsAs(ex *Exec, fr *frame, a []Value) Value {
	err, target := a[0].(Iface), a[1].(Iface)
	if err.t == nil {
		return false
	}
	if target.t == nil {
		panic(targetPanic{Iface{t: ex.prog.rtErr, v: "errors: target cannot be nil"}})
	}
	pt, ok := target.t.Underlying().(*types.Pointer)
	if !ok {
		panic(targetPanic{Iface{t: ex.prog.rtErr, v: "errors: target must be a non-nil pointer"}})
	}
	want := pt.Elem()
	dst := target.v.(*Value)
	for depth := 0; depth < 50; depth++ {
		if itf, isI := want.Underlying().(*types.Interface); isI {
			if miss, _ := types.MissingMethod(err.t, itf, true); miss == nil {
				*dst = err
				return true
			}
		} else if types.Identical(err.t, want) {
			*dst = err.v
			return true
		}
		if m := ex.errorMethod(err.t, "As"); m != nil {
			if ex.truth(ex.call(fr, 0, m, []Value{err.v, target})) {
				return true
			}
		}
		m := ex.errorMethod(err.t, "Unwrap")
		if m == nil {
			return false
		}
		res := ex.call(fr, 0, m, []Value{err.v})
		r, ok := res.(Iface)
		if !ok || r.t == nil {
			return false
		}
		err = r
	}
	return false
}

// callByName interprets a function of the loaded program by full name.
func (ex *Exec) callByName(fr *frame, name string, args []Value) Value {
	fn := ex.prog.FuncByFullName(name)
	if fn == nil {
		ex.unsupported(fr, "function not loaded: "+name)
	}
	return ex.callSSA(fr, 0, fn, args, nil)
}

func registerAtomic() {
	for _, T := range []string{"Int32", "Int64", "Uint32", "Uint64", "Uintptr", "Bool"} {
		T := T
		field := func(a []Value) *Value {
			s := (*a[0].(*Value)).(Struct)
			return &s[len(s)-1]
		}
		intrinsics["(*sync/atomic."+T+").Load"] = func(ex *Exec, fr *frame, a []Value) Value {
			v := *field(a)
			if T == "Bool" {
				return v.(BV).c != 0
			}
			return v
		}
		intrinsics["(*sync/atomic."+T+").Store"] = func(ex *Exec, fr *frame, a []Value) Value {
			if T == "Bool" {
				c := uint64(0)
				if a[1].(bool) {
					c = 1
				}
				*field(a) = mkBV(32, c)
				return nil
			}
			*field(a) = a[1]
			return nil
		}
		if T != "Bool" {
			intrinsics["(*sync/atomic."+T+").Add"] = func(ex *Exec, fr *frame, a []Value) Value {
				p := field(a)
				x, y := (*p).(BV), a[1].(BV)
				r := ex.fromTerm(ex.tb.Bin(OpAdd, ex.term(x), ex.term(y)))
				*p = r
				return r
			}
			intrinsics["(*sync/atomic."+T+").CompareAndSwap"] = func(ex *Exec, fr *frame, a []Value) Value {
				p := field(a)
				if ex.truth(ex.fromTerm(ex.tb.Eq(ex.term((*p).(BV)), ex.term(a[1].(BV))))) {
					*p = a[2]
					return true
				}
				return false
			}
		}
	}
	for _, T := range []string{"Int32", "Int64", "Uint32", "Uint64", "Uintptr"} {
		intrinsics["sync/atomic.Load"+T] = func(ex *Exec, fr *frame, a []Value) Value { return *ex.ptr(fr, a[0]) }
		intrinsics["sync/atomic.Store"+T] = func(ex *Exec, fr *frame, a []Value) Value {
			*ex.ptr(fr, a[0]) = a[1]
			return nil
		}
		intrinsics["sync/atomic.Add"+T] = func(ex *Exec, fr *frame, a []Value) Value {
			p := ex.ptr(fr, a[0])
			r := ex.fromTerm(ex.tb.Bin(OpAdd, ex.term((*p).(BV)), ex.term(a[1].(BV))))
			*p = r
			return r
		}
		intrinsics["sync/atomic.CompareAndSwap"+T] = func(ex *Exec, fr *frame, a []Value) Value {
			p := ex.ptr(fr, a[0])
			if ex.truth(ex.fromTerm(ex.tb.Eq(ex.term((*p).(BV)), ex.term(a[1].(BV))))) {
				*p = a[2]
				return true
			}
			return false
		}
	}
}

var _ = strings.HasPrefix
