package main

// Loading /repo's current working tree (plus harness overlays) and building
// SSA. Nothing is cached between runs: the encoding is regenerated from the
// source on every invocation.

import (
	"fmt"
	"go/token"
	"go/types"
	"os"
	"path/filepath"
	"sort"
	"strings"

	"golang.org/x/tools/go/packages"
	"golang.org/x/tools/go/ssa"
	"golang.org/x/tools/go/ssa/ssautil"
)

const targetModule = "github.com/rogpeppe/go-internal"
const rtPkgPath = targetModule + "/internal/verifrt"

type Program struct {
	prog    *ssa.Program
	fset    *token.FileSet
	pkgs    map[string]*ssa.Package
	stubs   map[string]*ssa.Function // "os.OpenFile" -> harness model function
	stubSrc map[*ssa.Function]string
	rtErr   types.Type
	repo    string
	srcHash map[string]string
}

// packages that are modelled (intrinsics / stubs) and never interpreted
var cutPackages = map[string]bool{
	"fmt": true, "os": true, "reflect": true, "runtime": true, "syscall": true,
	"internal/poll": true, "os/exec": true, "net/http": true, "time": true,
	"sync": true, "sync/atomic": true, "internal/syscall/unix": true,
	"testing": true, "log": true, "os/signal": true, "context": true,
	"internal/reflectlite": true, "math/rand": true, "crypto/sha256": true,
	"regexp": true, "regexp/syntax": true, "internal/godebug": true, "flag": true,
}

// packages whose init is not run at all (their globals read as zero)
var noInitPackages = map[string]bool{
	"runtime": true, "reflect": true, "syscall": true, "internal/poll": true,
	"os/exec": true, "net/http": true, "testing": true, "log": true,
	"internal/godebug": true, "internal/cpu": true, "os/signal": true,
	"internal/reflectlite": true, "math/rand": true, "crypto/sha256": true,
	"regexp/syntax": true, "internal/syscall/unix": true, "flag": true,
}

func (p *Program) isTarget(pkg *ssa.Package) bool {
	return pkg != nil && strings.HasPrefix(pkg.Pkg.Path(), targetModule)
}

func (p *Program) runtimeErrorType() types.Type { return p.rtErr }

// isStubCaller: a stub may call the function it replaces? (never: models do
// not fall through to the real os). Kept for symmetric use by intrinsics.
func (p *Program) isStubCaller(fn *ssa.Function, name string) bool {
	for f := fn; f != nil; f = f.Parent() {
		if p.stubSrc[f] == name {
			return true
		}
	}
	return false
}

type LoadConfig struct {
	Repo     string            // /repo
	Patterns []string          // package patterns relative to repo
	Overlay  map[string][]byte // absolute path -> contents
	Tags     []string
}

func Load(cfg LoadConfig) (*Program, error) {
	env := append(os.Environ(), "GOFLAGS=-mod=mod", "GOPROXY=off", "GOSUMDB=off", "GOTOOLCHAIN=local")
	pc := &packages.Config{
		Mode: packages.NeedName | packages.NeedFiles | packages.NeedCompiledGoFiles | packages.NeedImports |
			packages.NeedDeps | packages.NeedTypes | packages.NeedSyntax | packages.NeedTypesInfo | packages.NeedTypesSizes | packages.NeedModule,
		Dir:        cfg.Repo,
		Env:        env,
		Overlay:    cfg.Overlay,
		BuildFlags: []string{"-tags=" + strings.Join(cfg.Tags, ",")},
	}
	initial, err := packages.Load(pc, cfg.Patterns...)
	if err != nil {
		return nil, err
	}
	var errs []string
	packages.Visit(initial, nil, func(p *packages.Package) {
		for _, e := range p.Errors {
			errs = append(errs, e.Error())
		}
	})
	if len(errs) > 0 {
		return nil, fmt.Errorf("load errors:\n%s", strings.Join(errs, "\n"))
	}
	prog, _ := ssautil.AllPackages(initial, ssa.InstantiateGenerics|ssa.SanityCheckFunctions*0)
	prog.Build()
	p := &Program{prog: prog, fset: prog.Fset, pkgs: map[string]*ssa.Package{}, stubs: map[string]*ssa.Function{}, stubSrc: map[*ssa.Function]string{}, repo: cfg.Repo}
	for _, pkg := range prog.AllPackages() {
		p.pkgs[pkg.Pkg.Path()] = pkg
	}
	rt := p.pkgs["runtime"]
	if rt == nil {
		return nil, fmt.Errorf("runtime package not loaded")
	}
	p.rtErr = rt.Type("errorString").Object().Type()
	// harness stubs: functions named Stub_<pkg>_<Func> or Stub_<pkg>_<Type>_<Method>
	// are registered through verifrt.StubTable in each harness package:
	//   var VerifStubs = map[string]any{"os.OpenFile": modelOpenFile, ...}
	// resolved by scanning the package initialiser for MapUpdate on that var.
	for _, pkg := range prog.AllPackages() {
		if !p.isTarget(pkg) {
			continue
		}
		initFn := pkg.Func("init")
		if initFn == nil {
			continue
		}
		for _, b := range initFn.Blocks {
			for _, in := range b.Instrs {
				mu, ok := in.(*ssa.MapUpdate)
				if !ok {
					continue
				}
				k, ok := mu.Key.(*ssa.Const)
				if !ok || !isString(k.Type()) {
					continue
				}
				name, _ := constValue(k).(string)
				if !strings.HasPrefix(name, "stub:") {
					continue
				}
				mi, ok := mu.Value.(*ssa.MakeInterface)
				if !ok {
					continue
				}
				fn, ok := mi.X.(*ssa.Function)
				if !ok {
					continue
				}
				name = strings.TrimPrefix(name, "stub:")
				p.stubs[name] = fn
				p.stubSrc[fn] = name
			}
		}
	}
	return p, nil
}

func (p *Program) Func(pkgPath, name string) *ssa.Function {
	pkg := p.pkgs[pkgPath]
	if pkg == nil {
		return nil
	}
	return pkg.Func(name)
}

// FuncByFullName resolves "pkg/path.Func" or "(*pkg/path.T).Method" or "(pkg/path.T).Method".
func (p *Program) FuncByFullName(full string) *ssa.Function {
	if strings.HasPrefix(full, "(") {
		end := strings.Index(full, ")")
		recv := full[1:end]
		meth := full[end+2:]
		ptr := strings.HasPrefix(recv, "*")
		recv = strings.TrimPrefix(recv, "*")
		dot := strings.LastIndex(recv, ".")
		pkg := p.pkgs[recv[:dot]]
		if pkg == nil {
			return nil
		}
		tn := pkg.Type(recv[dot+1:])
		if tn == nil {
			return nil
		}
		var T types.Type = tn.Type()
		if ptr {
			T = types.NewPointer(T)
		}
		return p.prog.LookupMethod(T, pkg.Pkg, meth)
	}
	dot := strings.LastIndex(full, ".")
	return p.Func(full[:dot], full[dot+1:])
}

// HarnessOverlay reads harness sources under dir (mirroring repo-relative
// package directories) into an overlay rooted at repo.
func HarnessOverlay(harnessDir, repo string) (map[string][]byte, error) {
	ov := map[string][]byte{}
	err := filepath.Walk(harnessDir, func(path string, info os.FileInfo, err error) error {
		if err != nil {
			return err
		}
		if info.IsDir() || !strings.HasSuffix(path, ".go") {
			return nil
		}
		rel, _ := filepath.Rel(harnessDir, path)
		b, err := os.ReadFile(path)
		if err != nil {
			return err
		}
		ov[filepath.Join(repo, rel)] = b
		return nil
	})
	return ov, err
}

// functionsReached lists the target-module functions executed (for evidence).
func sortedKeys(m map[string]int) []string {
	out := make([]string, 0, len(m))
	for k := range m {
		out = append(out, k)
	}
	sort.Strings(out)
	return out
}

// allowInCut lists functions of cut packages that are plain Go over their
// arguments and may be interpreted.
func allowInCut(fn *ssa.Function) bool {
	name := fn.String()
	if allowedCutFuncs[name] {
		return true
	}
	for _, p := range allowedCutPrefixes {
		if strings.HasPrefix(name, p) {
			return true
		}
	}
	return false
}

var allowedCutFuncs = map[string]bool{
	"os.IsNotExist": true, "os.IsExist": true, "os.IsPermission": true, "os.IsTimeout": true,
	"os.underlyingErrorIs": true, "os.underlyingError": true, "os.Expand": true,
	"os.isShellSpecialVar": true, "os.isAlphaNum": true, "os.getShellName": true,
	"os.NewSyscallError": true, "os.IsPathSeparator": true,
	"time.Unix": true, "time.unixTime": true,
	"context.Background": true, "context.TODO": true,
	"regexp.QuoteMeta": true, "regexp.special": true, "regexp.init#1": true,
}

var allowedCutPrefixes = []string{
	"(*os.PathError).", "(*os.LinkError).", "(*os.SyscallError).", "(syscall.Errno).",
	"(*fmt.wrapError).", "(*fmt.wrapErrors).",
	"(time.Time).", "(*time.Time).", "(time.Duration).", "(time.Month).", "(time.Weekday).",
	"(io/fs.FileMode).",
	"(context.emptyCtx).", "(context.backgroundCtx).", "(context.deadlineExceededError).",
}
