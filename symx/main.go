package main

import (
	"flag"
	"runtime/debug"
	"runtime/pprof"
	"fmt"
	"os"
	"runtime"
	"sort"
	"strconv"
	"strings"
	"time"
)

func usage() {
	fmt.Fprintln(os.Stderr, `usage:
  symx check <ID> [--tier quick|thorough]
  symx run --pkg <dir> --fn <Harness> [--param K=V ...] [--workers N] [--maxpaths N]
  symx replay <file>`)
	os.Exit(2)
}

func envDefault(k, d string) string {
	if v := os.Getenv(k); v != "" {
		return v
	}
	return d
}

var (
	repoDir    = envDefault("VERIF_REPO", "/repo")
	verifDir   = envDefault("VERIF_DIR", "/verif")
	harnessDir = ""
)

func main() {
	harnessDir = verifDir + "/harness"
	debug.SetGCPercent(400)
	if len(os.Args) < 2 {
		usage()
	}
	switch os.Args[1] {
	case "run":
		os.Exit(cmdRun(os.Args[2:]))
	case "check":
		os.Exit(cmdCheck(os.Args[2:]))
	case "replay":
		os.Exit(cmdReplay(os.Args[2:]))
	case "ssajson":
		os.Exit(cmdSSAJSON(os.Args[2:]))
	default:
		usage()
	}
}

type paramFlags map[string]int

func (p paramFlags) String() string { return fmt.Sprint(map[string]int(p)) }
func (p paramFlags) Set(s string) error {
	eq := strings.IndexByte(s, '=')
	if eq < 0 {
		return fmt.Errorf("want K=V")
	}
	n, err := strconv.Atoi(s[eq+1:])
	if err != nil {
		return err
	}
	p[s[:eq]] = n
	return nil
}

func loadProgram(pkgs []string) (*Program, error) {
	ov, err := HarnessOverlay(harnessDir, repoDir)
	if err != nil {
		return nil, err
	}
	pats := []string{}
	for _, p := range pkgs {
		pats = append(pats, "./"+p)
	}
	return Load(LoadConfig{Repo: repoDir, Patterns: pats, Overlay: ov, Tags: []string{"verif", "symx"}})
}

func cmdRun(args []string) int {
	fs := flag.NewFlagSet("run", flag.ExitOnError)
	pkg := fs.String("pkg", "", "package dir relative to repo")
	fn := fs.String("fn", "", "harness function")
	workers := fs.Int("workers", runtime.NumCPU(), "workers")
	maxPaths := fs.Int("maxpaths", 0, "path budget")
	verbose := fs.Bool("v", false, "print samples")
	native := fs.Bool("native", false, "validate samples natively")
	keep := fs.Int("keep", 20, "samples to keep")
	params := paramFlags{}
	fs.Var(params, "param", "K=V")
	prof := fs.String("cpuprofile", "", "write cpu profile")
	fs.Parse(args)
	if *prof != "" {
		f, _ := os.Create(*prof)
		pprof.StartCPUProfile(f)
		defer pprof.StopCPUProfile()
	}
	t0 := time.Now()
	p, err := loadProgram([]string{*pkg})
	if err != nil {
		fmt.Fprintln(os.Stderr, err)
		return 2
	}
	fmt.Printf("loaded in %.1fs\n", time.Since(t0).Seconds())
	entry := p.Func(targetModule+"/"+*pkg, *fn)
	if entry == nil {
		fmt.Fprintln(os.Stderr, "no such harness function")
		return 2
	}
	res := Explore(p, ExploreConfig{Harness: *fn, Entry: entry, Params: params, Workers: *workers, MaxPaths: *maxPaths, SolverMs: 1500, KeepPaths: *keep, MaxViol: 3})
	printResult(res, *verbose)
	if *native {
		nv, err := ValidateNative(*pkg, res, nil)
		fmt.Printf("native validation: %+v err=%v\n", nv, err)
	}
	return 0
}

func printResult(res *ExploreResult, verbose bool) {
	fmt.Printf("harness %s params=%v: paths=%d outcomes=%v decisions=%d steps=%d maxdepth=%d wall=%.1fs\n",
		res.Harness, res.Params, res.Paths, res.Outcomes, res.Decisions, res.Steps, res.MaxDepth, res.Wall.Seconds())
	fmt.Printf("  solver: queries=%d sat=%d unsat=%d unknown=%d time=%.1fs slowest=%.2fs; feasibility=%d assert=%d fmtApprox=%d local(sat=%d unsat=%d)\n",
		res.Solver.Queries, res.Solver.Sat, res.Solver.Unsat, res.Solver.Unknown, res.Solver.Time.Seconds(), res.Solver.SlowQuery.Seconds(), res.FeasQ, res.AssertQ, res.FmtApprox, res.LocalSat, res.LocalUnsat)
	if res.StandaloneQ > 0 {
		fmt.Printf("  stand-alone portfolio: %d queries, %d decided, %.1fs\n", res.StandaloneQ, res.StandaloneOK, res.StandaloneT.Seconds())
	}
	fmt.Printf("  worker time: wait=%.1fs run=%.1fs; reached: %v\n", res.WaitT.Seconds(), res.RunT.Seconds(), res.Reached)
	if res.Incomplete != "" {
		fmt.Printf("  INCOMPLETE: %s\n", res.Incomplete)
	}
	for _, e := range res.EngineErrs {
		fmt.Printf("  ENGINE: %s\n", e)
	}
	for _, e := range res.Unsupported {
		fmt.Printf("  UNSUPPORTED: %s\n", e)
	}
	for _, e := range res.Unwinds {
		fmt.Printf("  UNWIND: %s\n", e)
	}
	for _, v := range res.Violations {
		fmt.Printf("  VIOL %s/%s %s inputs=%s\n", v.Kind, v.ID, v.Detail, inputsString(v.Inputs))
	}
	if verbose {
		for _, s := range res.Samples {
			fmt.Printf("  sample %s %s inputs=%s obs=%v\n", s.Outcome, s.Detail, inputsString(s.Inputs), s.Obs)
		}
		var fns []string
		for k := range res.Funcs {
			fns = append(fns, k)
		}
		sort.Strings(fns)
		fmt.Printf("  functions: %v\n", fns)
	}
}

func inputsString(in []InputRec) string {
	var sb strings.Builder
	// bytes rendered as a quoted string, others as name=val
	var bs []byte
	flush := func() {
		if len(bs) > 0 {
			fmt.Fprintf(&sb, "%q ", string(bs))
			bs = nil
		}
	}
	for _, r := range in {
		if r.W == 8 {
			bs = append(bs, byte(r.Val))
			continue
		}
		flush()
		fmt.Fprintf(&sb, "%s=%d ", r.Name, int64(r.Val))
	}
	flush()
	return strings.TrimSpace(sb.String())
}
