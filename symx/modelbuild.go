package main

// go/build's package initialiser reaches internal/buildcfg, which uses
// reflection (cut). Its default context is therefore supplied by the engine:
// the fields the code under test reads (GOOS, GOARCH, Compiler, ReleaseTags,
// ToolTags, CgoEnabled) are those of the toolchain the checks run with.

import (
	"go/build"
	"go/types"
)

func init() {
	intrinsics["go/build.defaultContext"] = func(ex *Exec, fr *frame, a []Value) Value {
		pkg := ex.prog.pkgs["go/build"]
		if pkg == nil || pkg.Type("Context") == nil {
			ex.unsupported(fr, "go/build.Context not loaded")
		}
		t := pkg.Type("Context").Type()
		st := t.Underlying().(*types.Struct)
		v := zero(t).(Struct)
		d := build.Default
		set := func(name string, val Value) {
			for i := 0; i < st.NumFields(); i++ {
				if st.Field(i).Name() == name {
					v[i] = val
				}
			}
		}
		strs := func(ss []string) Value {
			out := make([]Value, len(ss))
			for i, s := range ss {
				out[i] = s
			}
			return out
		}
		set("GOARCH", d.GOARCH)
		set("GOOS", d.GOOS)
		set("GOROOT", d.GOROOT)
		set("GOPATH", "")
		set("Compiler", d.Compiler)
		set("CgoEnabled", d.CgoEnabled)
		set("ReleaseTags", strs(d.ReleaseTags))
		set("ToolTags", strs(d.ToolTags))
		return v
	}
}
