package main

// Native replay: the harness functions are ordinary Go; the values a solver
// model assigned to the path's input variables are fed back through the
// native verifrt implementation, against the real build of /repo (harness
// and verifrt injected with `go test -overlay`, nothing written to /repo).

import (
	"encoding/json"
	"fmt"
	"os"
	"os/exec"
	"path/filepath"
	"sort"
	"strconv"
	"strings"
	"time"
)

type ReplayRec struct {
	Harness string
	Params  map[string]int
	Inputs  []InputRec
	// prediction
	Outcome string // ok | panic | stop | assert:<id>
	Detail  string
	Obs     []string
}

type NativeResult struct {
	Ran        int
	Agreed     int
	Mismatches []string
	Lines      []string
	Wall       time.Duration
}

func paramString(p map[string]int) string {
	var ks []string
	for k := range p {
		ks = append(ks, k)
	}
	sort.Strings(ks)
	var parts []string
	for _, k := range ks {
		parts = append(parts, fmt.Sprintf("%s=%d", k, p[k]))
	}
	return strings.Join(parts, ",")
}

func replayLine(r ReplayRec) string {
	vals := make([]string, len(r.Inputs))
	for i, in := range r.Inputs {
		vals[i] = strconv.FormatUint(in.Val, 10)
	}
	return r.Harness + "|" + paramString(r.Params) + "|" + strings.Join(vals, ",")
}

// harnessFuncs lists Verif* functions of the package dir (by scanning the
// harness sources, so that it works without a loaded program).
func harnessFuncs(pkg string) ([]string, string, error) {
	dir := filepath.Join(harnessDir, pkg)
	ents, err := os.ReadDir(dir)
	if err != nil {
		return nil, "", err
	}
	var fns []string
	pkgName := ""
	for _, e := range ents {
		if !strings.HasSuffix(e.Name(), ".go") {
			continue
		}
		b, err := os.ReadFile(filepath.Join(dir, e.Name()))
		if err != nil {
			return nil, "", err
		}
		if strings.Contains(string(b), "&& symx") && !strings.Contains(string(b), "!symx") {
			continue
		}
		for _, line := range strings.Split(string(b), "\n") {
			if strings.HasPrefix(line, "package ") && pkgName == "" {
				pkgName = strings.TrimSpace(strings.TrimPrefix(line, "package "))
			}
			if strings.HasPrefix(line, "func Verif") {
				name := line[len("func "):]
				if i := strings.Index(name, "("); i > 0 && strings.HasPrefix(name[i:], "()") {
					fns = append(fns, name[:i])
				}
			}
		}
	}
	sort.Strings(fns)
	return fns, pkgName, nil
}

func RunNative(pkg string, recs []ReplayRec) (*NativeResult, error) {
	start := time.Now()
	res := &NativeResult{}
	if len(recs) == 0 {
		return res, nil
	}
	tmp, err := os.MkdirTemp("", "verif-native-")
	if err != nil {
		return nil, err
	}
	defer os.RemoveAll(tmp)
	fns, pkgName, err := harnessFuncs(pkg)
	if err != nil {
		return nil, err
	}
	var sb strings.Builder
	fmt.Fprintf(&sb, "//go:build verif\n\npackage %s\n\nimport (\n\t\"testing\"\n\trt \"%s\"\n)\n\n", pkgName, rtPkgPath)
	sb.WriteString("func TestVerifReplay(t *testing.T) {\n\trt.RunReplays(map[string]func(){\n")
	for _, f := range fns {
		fmt.Fprintf(&sb, "\t\t%q: %s,\n", f, f)
	}
	sb.WriteString("\t})\n}\n")
	driver := filepath.Join(tmp, "driver_test.go")
	if err := os.WriteFile(driver, []byte(sb.String()), 0o644); err != nil {
		return nil, err
	}
	var lines []string
	for _, r := range recs {
		lines = append(lines, replayLine(r))
	}
	rfile := filepath.Join(tmp, "replays.txt")
	if err := os.WriteFile(rfile, []byte(strings.Join(lines, "\n")+"\n"), 0o644); err != nil {
		return nil, err
	}
	replace := map[string]string{}
	err = filepath.Walk(harnessDir, func(path string, info os.FileInfo, err error) error {
		if err != nil || info.IsDir() || !strings.HasSuffix(path, ".go") {
			return err
		}
		rel, _ := filepath.Rel(harnessDir, path)
		replace[filepath.Join(repoDir, rel)] = path
		return nil
	})
	if err != nil {
		return nil, err
	}
	replace[filepath.Join(repoDir, pkg, "zz_verif_replay_test.go")] = driver
	ovb, _ := json.Marshal(map[string]interface{}{"Replace": replace})
	ovfile := filepath.Join(tmp, "overlay.json")
	if err := os.WriteFile(ovfile, ovb, 0o644); err != nil {
		return nil, err
	}
	cmd := exec.Command("go", "test", "-tags", "verif", "-overlay", ovfile, "-run", "^TestVerifReplay$", "-v", "-count=1", "-vet=off", "-timeout", "10m", "./"+pkg)
	cmd.Dir = repoDir
	cmd.Env = append(os.Environ(), "GOFLAGS=-mod=mod", "GOPROXY=off", "GOSUMDB=off", "GOTOOLCHAIN=local", "VERIF_REPLAY_FILE="+rfile)
	out, runErr := cmd.CombinedOutput()
	got := map[int]string{}
	for _, line := range strings.Split(string(out), "\n") {
		if strings.HasPrefix(line, "REPLAY ") {
			parts := strings.SplitN(line, " ", 3)
			i, err := strconv.Atoi(parts[1])
			if err == nil {
				got[i] = parts[2]
			}
		}
	}
	if len(got) == 0 {
		return nil, fmt.Errorf("native replay produced no results (err=%v):\n%s", runErr, truncStr(string(out), 4000))
	}
	for i, r := range recs {
		g, ok := got[i]
		if !ok {
			res.Mismatches = append(res.Mismatches, fmt.Sprintf("#%d %s: no native result", i, r.Harness))
			continue
		}
		res.Ran++
		res.Lines = append(res.Lines, g)
		outcome := g
		obs := ""
		if j := strings.Index(g, " obs="); j >= 0 {
			obs = g[j+5:]
			outcome = g[:j]
		}
		if j := strings.Index(outcome, " used="); j >= 0 {
			outcome = outcome[:j]
		}
		agree := false
		switch {
		case r.Outcome == "ok" || r.Outcome == "stop":
			agree = outcome == r.Outcome
		case r.Outcome == "panic":
			agree = strings.HasPrefix(outcome, "panic:")
		case strings.HasPrefix(r.Outcome, "assert:"):
			agree = outcome == r.Outcome
		}
		if agree && (r.Outcome == "ok") {
			want := strings.Join(r.Obs, ";")
			if want != obs {
				agree = false
				g += " WANT-OBS=" + want
			}
		}
		if agree {
			res.Agreed++
		} else {
			res.Mismatches = append(res.Mismatches, fmt.Sprintf("#%d %s inputs=%s predicted=%s native=%s", i, r.Harness, inputsString(r.Inputs), r.Outcome, g))
		}
	}
	res.Wall = time.Since(start)
	return res, nil
}

func ValidateNative(pkg string, res *ExploreResult, extra []Violation) (*NativeResult, error) {
	var recs []ReplayRec
	for _, s := range res.Samples {
		recs = append(recs, ReplayRec{Harness: res.Harness, Params: res.Params, Inputs: s.Inputs, Outcome: s.Outcome, Detail: s.Detail, Obs: s.Obs})
	}
	for _, v := range res.Violations {
		out := "panic"
		if v.Kind == "assert" {
			out = "assert:" + v.ID
		}
		recs = append(recs, ReplayRec{Harness: res.Harness, Params: res.Params, Inputs: v.Inputs, Outcome: out, Detail: v.Detail})
	}
	return RunNative(pkg, recs)
}

// VFSConformance builds and runs the file-system model's conformance test
// (model vs real OS on seeded operation sequences) and returns the number
// of sequences, operations and mismatches.
func VFSConformance(seed int64) (seqs, ops, mismatches int, err error) {
	tmp, err := os.MkdirTemp("", "verif-vfsconf-")
	if err != nil {
		return 0, 0, 0, err
	}
	defer os.RemoveAll(tmp)
	replace := map[string]string{}
	err = filepath.Walk(harnessDir, func(path string, info os.FileInfo, err error) error {
		if err != nil || info.IsDir() || !strings.HasSuffix(path, ".go") {
			return err
		}
		rel, _ := filepath.Rel(harnessDir, path)
		replace[filepath.Join(repoDir, rel)] = path
		return nil
	})
	if err != nil {
		return 0, 0, 0, err
	}
	ovb, _ := json.Marshal(map[string]interface{}{"Replace": replace})
	ovfile := filepath.Join(tmp, "overlay.json")
	if err := os.WriteFile(ovfile, ovb, 0o644); err != nil {
		return 0, 0, 0, err
	}
	bin := filepath.Join(tmp, "vfsconf.test")
	env := append(os.Environ(), "GOFLAGS=-mod=mod", "GOPROXY=off", "GOSUMDB=off", "GOTOOLCHAIN=local", fmt.Sprintf("VERIF_SEED=%d", seed), "VFS_CONFORM_SEQS=300")
	build := exec.Command("go", "test", "-tags", "verif", "-overlay", ovfile, "-vet=off", "-c", "-o", bin, "./internal/verifrt/vfs")
	build.Dir = repoDir
	build.Env = env
	if out, err := build.CombinedOutput(); err != nil {
		return 0, 0, 0, fmt.Errorf("cannot build vfs conformance test: %v: %s", err, truncStr(string(out), 1500))
	}
	run := exec.Command(bin, "-test.run", "TestConform", "-test.v")
	run.Dir = tmp
	run.Env = env
	out, _ := run.CombinedOutput()
	for _, line := range strings.Split(string(out), "\n") {
		if strings.HasPrefix(line, "CONFORM ") {
			fmt.Sscanf(line, "CONFORM sequences=%d ops=%d mismatches=%d", &seqs, &ops, &mismatches)
			return seqs, ops, mismatches, nil
		}
	}
	return 0, 0, 0, fmt.Errorf("vfs conformance test produced no result: %s", truncStr(string(out), 1500))
}
