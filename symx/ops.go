package main

import (
	"fmt"
	"go/constant"
	"go/token"
	"go/types"
	"math"
	"unicode/utf8"

	"golang.org/x/tools/go/ssa"
)

func constValue(c *ssa.Const) Value {
	if c.Value == nil {
		return zero(c.Type())
	}
	if t, ok := c.Type().Underlying().(*types.Basic); ok {
		if w, signed, ok := basicWidth(t.Kind()); ok {
			if signed {
				return mkBV(w, uint64(c.Int64()))
			}
			return mkBV(w, c.Uint64())
		}
		switch t.Kind() {
		case types.Bool, types.UntypedBool:
			return constant.BoolVal(c.Value)
		case types.Float32:
			return float32(c.Float64())
		case types.Float64, types.UntypedFloat:
			return c.Float64()
		case types.Complex64:
			return complex64(c.Complex128())
		case types.Complex128, types.UntypedComplex:
			return c.Complex128()
		case types.String, types.UntypedString:
			if c.Value.Kind() == constant.String {
				return constant.StringVal(c.Value)
			}
			return string(rune(c.Int64()))
		}
	}
	panic(engineError{fmt.Sprintf("constValue: %s", c)})
}

// ---------- scalar helpers ----------

func (ex *Exec) term(b BV) *Term {
	if b.t != nil {
		return b.t
	}
	return ex.tb.Const(int(b.w), b.c)
}

func (ex *Exec) fromTerm(t *Term) Value {
	if t.w == 0 {
		if t.IsConst() {
			return t.c != 0
		}
		return SBool{t}
	}
	if t.IsConst() {
		return BV{w: uint8(t.w), c: t.c}
	}
	return BV{w: uint8(t.w), t: t}
}

func (ex *Exec) boolTerm(v Value) *Term {
	switch v := v.(type) {
	case bool:
		return ex.tb.Bool(v)
	case SBool:
		return v.t
	}
	panic(engineError{fmt.Sprintf("boolTerm of %T", v)})
}

// truth forks on a symbolic boolean.
func (ex *Exec) truth(v Value) bool {
	switch v := v.(type) {
	case bool:
		return v
	case SBool:
		return ex.Decide(v.t)
	}
	panic(engineError{fmt.Sprintf("truth of %T", v)})
}

// concInt returns a concrete int64 for an integer value, forking over
// feasible values when symbolic.
func (ex *Exec) concInt(v Value) int64 {
	if v == nil {
		return 0
	}
	b := v.(BV)
	if b.t == nil {
		return b.Signed()
	}
	c := ex.Concretize(b.t)
	return sext(c, int(b.w))
}

func intVal(n int) Value { return mkBV(64, uint64(n)) }

func asInt(v Value) int {
	b := v.(BV)
	if b.t != nil {
		panic(engineError{"asInt of symbolic value"})
	}
	return int(b.Signed())
}

// ---------- binop ----------

func (ex *Exec) binop(fr *frame, op token.Token, t types.Type, x, y Value) Value {
	switch xv := x.(type) {
	case BV:
		return ex.binopBV(fr, op, t, xv, y.(BV))
	case bool, SBool:
		return ex.binopBool(op, x, y)
	case string, SymStr:
		return ex.binopStr(op, x, y)
	case float64:
		return binopFloat(op, xv, y.(float64))
	case float32:
		r := binopFloat(op, float64(xv), float64(y.(float32)))
		if f, ok := r.(float64); ok {
			return float32(f)
		}
		return r
	}
	switch op {
	case token.EQL:
		return ex.equals(t, x, y)
	case token.NEQ:
		return ex.not(ex.equals(t, x, y))
	}
	panic(engineError{fmt.Sprintf("invalid binary op: %T %s %T", x, op, y)})
}

func binopFloat(op token.Token, x, y float64) Value {
	switch op {
	case token.ADD:
		return x + y
	case token.SUB:
		return x - y
	case token.MUL:
		return x * y
	case token.QUO:
		return x / y
	case token.EQL:
		return x == y
	case token.NEQ:
		return x != y
	case token.LSS:
		return x < y
	case token.LEQ:
		return x <= y
	case token.GTR:
		return x > y
	case token.GEQ:
		return x >= y
	}
	panic(engineError{"bad float op " + op.String()})
}

func (ex *Exec) not(v Value) Value {
	switch v := v.(type) {
	case bool:
		return !v
	case SBool:
		return ex.fromTerm(ex.tb.BNot(v.t))
	}
	panic(engineError{"not of non-bool"})
}

func (ex *Exec) binopBool(op token.Token, x, y Value) Value {
	xb, xc := x.(bool)
	yb, yc := y.(bool)
	if xc && yc {
		switch op {
		case token.EQL:
			return xb == yb
		case token.NEQ:
			return xb != yb
		case token.AND, token.LAND:
			return xb && yb
		case token.OR, token.LOR:
			return xb || yb
		}
	}
	tx, ty := ex.boolTerm(x), ex.boolTerm(y)
	switch op {
	case token.EQL:
		return ex.fromTerm(ex.tb.Eq(tx, ty))
	case token.NEQ:
		return ex.fromTerm(ex.tb.BNot(ex.tb.Eq(tx, ty)))
	case token.AND, token.LAND:
		return ex.fromTerm(ex.tb.BAnd(tx, ty))
	case token.OR, token.LOR:
		return ex.fromTerm(ex.tb.BOr(tx, ty))
	}
	panic(engineError{"bad bool op " + op.String()})
}

func (ex *Exec) binopBV(fr *frame, op token.Token, t types.Type, x, y BV) Value {
	w := int(x.w)
	_, signed, _ := intInfo(t)
	// shifts: y may have a different width
	if op == token.SHL || op == token.SHR {
		return ex.shift(fr, op, signed, x, y)
	}
	if ex.scaled != nil && (op == token.LSS || op == token.LEQ || op == token.GTR || op == token.GEQ || op == token.EQL || op == token.NEQ) {
		if v, ok := ex.scaledCmp(op, x, y); ok {
			return v
		}
	}
	if x.w != y.w {
		panic(engineError{fmt.Sprintf("binop %s width mismatch %d %d at %s", op, x.w, y.w, fr.where())})
	}
	if (op == token.QUO || op == token.REM) {
		if y.t == nil {
			if y.c == 0 {
				ex.rtPanic("integer divide by zero")
			}
		} else if ex.Decide(ex.tb.Eq(y.t, ex.tb.Const(w, 0))) {
			ex.rtPanic("integer divide by zero")
		}
	}
	var bop Op
	cmp := false
	swap := false
	neg := false
	switch op {
	case token.ADD:
		bop = OpAdd
	case token.SUB:
		bop = OpSub
	case token.MUL:
		bop = OpMul
	case token.QUO:
		if signed {
			bop = OpSDiv
		} else {
			bop = OpUDiv
		}
	case token.REM:
		if signed {
			bop = OpSRem
		} else {
			bop = OpURem
		}
	case token.AND:
		bop = OpAnd
	case token.OR:
		bop = OpOr
	case token.XOR:
		bop = OpXor
	case token.AND_NOT:
		if x.t == nil && y.t == nil {
			return BV{w: x.w, c: x.c &^ y.c}
		}
		return ex.fromTerm(ex.tb.Bin(OpAnd, ex.term(x), ex.tb.Un(OpNot, ex.term(y))))
	case token.EQL:
		cmp, bop = true, OpEq
	case token.NEQ:
		cmp, bop, neg = true, OpEq, true
	case token.LSS:
		cmp = true
		bop = OpULt
		if signed {
			bop = OpSLt
		}
	case token.LEQ:
		cmp = true
		bop = OpULe
		if signed {
			bop = OpSLe
		}
	case token.GTR:
		cmp, swap = true, true
		bop = OpULt
		if signed {
			bop = OpSLt
		}
	case token.GEQ:
		cmp, swap = true, true
		bop = OpULe
		if signed {
			bop = OpSLe
		}
	default:
		panic(engineError{"bad int op " + op.String()})
	}
	if swap {
		x, y = y, x
	}
	if x.t == nil && y.t == nil {
		if cmp {
			r := foldCmp(bop, w, x.c, y.c)
			return r != neg
		}
		return BV{w: x.w, c: foldBin(bop, w, x.c, y.c)}
	}
	tx, ty := ex.term(x), ex.term(y)
	if cmp {
		r := ex.tb.Cmp(bop, tx, ty)
		if neg {
			r = ex.tb.BNot(r)
		}
		return ex.fromTerm(r)
	}
	return ex.fromTerm(ex.tb.Bin(bop, tx, ty))
}

func (ex *Exec) shift(fr *frame, op token.Token, signed bool, x, y BV) Value {
	w := int(x.w)
	// Go: negative shift count panics (only possible for signed counts;
	// the SSA builder converts counts so y's static type is not at hand:
	// y is treated as unsigned unless concrete-and-huge, matching interp).
	if x.t == nil && y.t == nil {
		cnt := y.c
		var bop Op
		switch {
		case op == token.SHL:
			bop = OpShl
		case signed:
			bop = OpAShr
		default:
			bop = OpLShr
		}
		return BV{w: x.w, c: foldBin(bop, w, x.c, cnt)}
	}
	tx := ex.term(x)
	ty := ex.term(y)
	// bring the count to width w, saturating
	if ty.w > w {
		big := ex.tb.Cmp(OpULe, ex.tb.Const(ty.w, uint64(w)), ty)
		ty = ex.tb.Ite(big, ex.tb.Const(w, uint64(w)), ex.tb.Extract(ty, w-1, 0))
	} else if ty.w < w {
		ty = ex.tb.ZExt(ty, w)
	}
	var bop Op
	switch {
	case op == token.SHL:
		bop = OpShl
	case signed:
		bop = OpAShr
	default:
		bop = OpLShr
	}
	return ex.fromTerm(ex.tb.Bin(bop, tx, ty))
}

func (ex *Exec) binopStr(op token.Token, x, y Value) Value {
	if xs, ok := x.(string); ok {
		if ys, ok := y.(string); ok {
			switch op {
			case token.ADD:
				return xs + ys
			case token.EQL:
				return xs == ys
			case token.NEQ:
				return xs != ys
			case token.LSS:
				return xs < ys
			case token.LEQ:
				return xs <= ys
			case token.GTR:
				return xs > ys
			case token.GEQ:
				return xs >= ys
			}
		}
	}
	switch op {
	case token.ADD:
		return strConcat(x, y)
	case token.EQL:
		return ex.fromTerm(ex.strEq(x, y))
	case token.NEQ:
		return ex.fromTerm(ex.tb.BNot(ex.strEq(x, y)))
	case token.LSS:
		return ex.fromTerm(ex.strLess(x, y, false))
	case token.LEQ:
		return ex.fromTerm(ex.strLess(x, y, true))
	case token.GTR:
		return ex.fromTerm(ex.strLess(y, x, false))
	case token.GEQ:
		return ex.fromTerm(ex.strLess(y, x, true))
	}
	panic(engineError{"bad string op " + op.String()})
}

func (ex *Exec) strEq(x, y Value) *Term {
	if strLen(x) != strLen(y) {
		return ex.tb.ff
	}
	return ex.cellsEq(strCells(x), strCells(y))
}

func (ex *Exec) cellsEq(a, b []Value) *Term {
	if len(a) != len(b) {
		return ex.tb.ff
	}
	var conj []*Term
	for i := range a {
		x, y := a[i].(BV), b[i].(BV)
		if x.t == nil && y.t == nil {
			if x.c != y.c {
				return ex.tb.ff
			}
			continue
		}
		conj = append(conj, ex.tb.Eq(ex.term(x), ex.term(y)))
	}
	return ex.tb.BAnd(conj...)
}

// strLess: lexicographic x < y (or <= when orEq).
func (ex *Exec) strLess(x, y Value, orEq bool) *Term {
	a, b := strCells(x), strCells(y)
	n := len(a)
	if len(b) < n {
		n = len(b)
	}
	// result when common prefix equal
	var acc *Term
	if len(a) < len(b) {
		acc = ex.tb.tt
	} else if len(a) == len(b) {
		acc = ex.tb.Bool(orEq)
	} else {
		acc = ex.tb.ff
	}
	for i := n - 1; i >= 0; i-- {
		ta, tb := ex.term(a[i].(BV)), ex.term(b[i].(BV))
		lt := ex.tb.Cmp(OpULt, ta, tb)
		eq := ex.tb.Eq(ta, tb)
		acc = ex.tb.Ite(lt, ex.tb.tt, ex.tb.Ite(eq, acc, ex.tb.ff))
	}
	return acc
}

// ---------- equality ----------

func (ex *Exec) equals(t types.Type, x, y Value) Value {
	return ex.fromTerm(ex.eqTerm(t, x, y))
}

func sameType(x, y types.Type) bool {
	if x == nil {
		return y == nil
	}
	return y != nil && types.Identical(x, y)
}

func (ex *Exec) eqTerm(t types.Type, x, y Value) *Term {
	switch x := x.(type) {
	case bool, SBool:
		return ex.tb.Eq(ex.boolTerm(x), ex.boolTerm(y))
	case BV:
		yb := y.(BV)
		if x.t == nil && yb.t == nil {
			return ex.tb.Bool(x.c == yb.c)
		}
		return ex.tb.Eq(ex.term(x), ex.term(yb))
	case float32:
		return ex.tb.Bool(x == y.(float32))
	case float64:
		return ex.tb.Bool(x == y.(float64))
	case string, SymStr:
		return ex.strEq(x, y)
	case *Value:
		switch y := y.(type) {
		case *Value:
			return ex.tb.Bool(x == y)
		case *SymPtr:
			return ex.tb.ff
		}
	case *SymPtr:
		if yp, ok := y.(*SymPtr); ok && yp == x {
			return ex.tb.tt
		}
		ex.unsupported(nil, "comparison of symbolic pointers")
	case *Chan:
		return ex.tb.Bool(x == y.(*Chan))
	case *Map:
		// only comparison with nil is legal
		ym := y.(*Map)
		return ex.tb.Bool(x == ym)
	case []Value:
		yv := y.([]Value)
		return ex.tb.Bool((x == nil) == (yv == nil))
	case *ssa.Function:
		yf, _ := y.(*ssa.Function)
		return ex.tb.Bool(x == yf && isFuncNil(y) == (x == nil))
	case *Closure:
		if x == nil {
			return ex.tb.Bool(isFuncNil(y))
		}
		yc, _ := y.(*Closure)
		return ex.tb.Bool(x == yc)
	case Struct:
		ys := y.(Struct)
		st := t.Underlying().(*types.Struct)
		var conj []*Term
		for i := range x {
			if st.Field(i).Name() == "_" {
				continue
			}
			conj = append(conj, ex.eqTerm(st.Field(i).Type(), x[i], ys[i]))
		}
		return ex.tb.BAnd(conj...)
	case Array:
		ya := y.(Array)
		et := t.Underlying().(*types.Array).Elem()
		var conj []*Term
		for i := range x {
			conj = append(conj, ex.eqTerm(et, x[i], ya[i]))
		}
		return ex.tb.BAnd(conj...)
	case Iface:
		yi := y.(Iface)
		if !sameType(x.t, yi.t) {
			return ex.tb.ff
		}
		if x.t == nil {
			return ex.tb.tt
		}
		if !types.Comparable(x.t) {
			panic(targetPanic{Iface{t: ex.prog.runtimeErrorType(), v: "runtime error: comparing uncomparable type " + x.t.String()}})
		}
		return ex.eqTerm(x.t, x.v, yi.v)
	}
	panic(engineError{fmt.Sprintf("comparing uncomparable %T / %T (type %v)", x, y, t)})
}

func isFuncNil(v Value) bool {
	switch f := v.(type) {
	case *ssa.Function:
		return f == nil
	case *Closure:
		return f == nil
	case nil:
		return true
	}
	return false
}

// ---------- unop ----------

func (ex *Exec) unop(fr *frame, instr *ssa.UnOp, x Value) Value {
	switch instr.Op {
	case token.ARROW:
		return ex.chanRecv(fr, instr, x)
	case token.SUB:
		switch x := x.(type) {
		case BV:
			if x.t == nil {
				return mkBV(int(x.w), -x.c)
			}
			return ex.fromTerm(ex.tb.Un(OpNeg, x.t))
		case float64:
			return -x
		case float32:
			return -x
		}
	case token.MUL:
		return ex.loadAt(fr, deref(instr.X.Type()), x)
	case token.NOT:
		return ex.not(x)
	case token.XOR:
		if b, ok := x.(BV); ok {
			if b.t == nil {
				return mkBV(int(b.w), ^b.c)
			}
			return ex.fromTerm(ex.tb.Un(OpNot, b.t))
		}
	}
	panic(engineError{fmt.Sprintf("invalid unary op %s %T", instr.Op, x)})
}

// ---------- memory ----------

func (ex *Exec) ptr(fr *frame, p Value) *Value {
	switch p := p.(type) {
	case *Value:
		if p == nil {
			ex.rtPanic("invalid memory address or nil pointer dereference")
		}
		return p
	case *SymPtr:
		i := ex.Concretize(p.idx)
		return &p.cells[i]
	}
	panic(engineError{fmt.Sprintf("not a pointer: %T at\n%s", p, fr.where())})
}

func isScalarCell(v Value) bool {
	switch v.(type) {
	case BV, bool, SBool:
		return true
	}
	return false
}

func (ex *Exec) loadAt(fr *frame, T types.Type, p Value) Value {
	if sp, ok := p.(*SymPtr); ok {
		if v, ok := ex.selectCells(sp.cells, sp.idx); ok {
			return v
		}
	}
	return load(T, ex.ptr(fr, p))
}

func (ex *Exec) storeAt(fr *frame, T types.Type, p Value, v Value) {
	if sp, ok := p.(*SymPtr); ok && isScalarCell(v) {
		allScalar := true
		for _, c := range sp.cells {
			if !isScalarCell(c) {
				allScalar = false
				break
			}
		}
		if allScalar && len(sp.cells) <= 64 {
			for i := range sp.cells {
				hit := ex.tb.Eq(sp.idx, ex.tb.Const(sp.idx.w, uint64(i)))
				sp.cells[i] = ex.iteVal(hit, v, sp.cells[i])
			}
			return
		}
	}
	store(T, ex.ptr(fr, p), v)
}

func (ex *Exec) iteVal(c *Term, a, b Value) Value {
	switch av := a.(type) {
	case BV:
		return ex.fromTerm(ex.tb.Ite(c, ex.term(av), ex.term(b.(BV))))
	case bool, SBool:
		return ex.fromTerm(ex.tb.Ite(c, ex.boolTerm(a), ex.boolTerm(b)))
	}
	panic(engineError{"iteVal of non-scalar"})
}

// selectCells builds cells[idx] as an ite chain (runs of equal concrete
// values are merged into range tests).
func (ex *Exec) selectCells(cells []Value, idx *Term) (Value, bool) {
	if len(cells) == 0 {
		return nil, false
	}
	for _, c := range cells {
		if !isScalarCell(c) {
			return nil, false
		}
	}
	if len(cells) > 4096 {
		return nil, false
	}
	_, isBool := cells[0].(bool)
	if _, sb := cells[0].(SBool); sb {
		isBool = true
	}
	toT := func(v Value) *Term {
		if isBool {
			return ex.boolTerm(v)
		}
		return ex.term(v.(BV))
	}
	// group runs
	type run struct {
		lo, hi int
		t      *Term
	}
	var runs []run
	for i, c := range cells {
		t := toT(c)
		if n := len(runs); n > 0 && runs[n-1].t == t {
			runs[n-1].hi = i
			continue
		}
		runs = append(runs, run{i, i, t})
	}
	acc := runs[len(runs)-1].t
	for i := len(runs) - 2; i >= 0; i-- {
		r := runs[i]
		// idx <= r.hi (runs are scanned in order, so idx >= r.lo is implied)
		c := ex.tb.Cmp(OpULe, idx, ex.tb.Const(idx.w, uint64(r.hi)))
		acc = ex.tb.Ite(c, r.t, acc)
	}
	return ex.fromTerm(acc), true
}

// indexAddr: &cells[idx] with bounds check.
func (ex *Exec) indexAddr(fr *frame, cells []Value, idx Value, idxT types.Type) Value {
	b := idx.(BV)
	_, signed, _ := intInfo(idxT)
	if b.t == nil {
		i := b.Signed()
		if !signed {
			i = int64(b.c)
			if b.c > 1<<62 {
				i = -1
			}
		}
		if i < 0 || i >= int64(len(cells)) {
			ex.rtPanic(fmt.Sprintf("index out of range [%d] with length %d", i, len(cells)))
		}
		return &cells[i]
	}
	t := ex.tb.SExt(b.t, 64)
	if !signed {
		t = ex.tb.ZExt(b.t, 64)
	}
	inRange := ex.tb.Cmp(OpULt, t, ex.tb.Const(64, uint64(len(cells))))
	if !ex.Decide(inRange) {
		ex.rtPanic(fmt.Sprintf("index out of range [symbolic] with length %d", len(cells)))
	}
	if len(cells) == 1 {
		return &cells[0]
	}
	return &SymPtr{cells: cells, idx: t}
}

func (ex *Exec) indexValue(fr *frame, cells []Value, idx Value, idxT types.Type) Value {
	p := ex.indexAddr(fr, cells, idx, idxT)
	switch p := p.(type) {
	case *Value:
		return copyVal(*p)
	case *SymPtr:
		if v, ok := ex.selectCells(p.cells, p.idx); ok {
			return v
		}
		return copyVal(*ex.ptr(fr, p))
	}
	panic("unreachable")
}

func (ex *Exec) slice(x, lo, hi, max Value) Value {
	var Len, Cap int
	switch x := x.(type) {
	case string:
		Len = len(x)
		Cap = Len
	case SymStr:
		Len = len(x)
		Cap = Len
	case []Value:
		Len = len(x)
		Cap = cap(x)
	case *Value:
		if x == nil {
			ex.rtPanic("invalid memory address or nil pointer dereference")
		}
		a := (*x).(Array)
		Len = len(a)
		Cap = len(a)
	default:
		panic(engineError{fmt.Sprintf("slice: unexpected X type: %T", x)})
	}
	l := int64(0)
	if lo != nil {
		l = ex.concInt(lo)
	}
	h := int64(Len)
	if hi != nil {
		h = ex.concInt(hi)
	}
	m := int64(Cap)
	if max != nil {
		m = ex.concInt(max)
	}
	if _, isStr := x.(string); isStr {
		Cap = Len
	}
	if m < 0 || m > int64(Cap) {
		ex.rtPanic(fmt.Sprintf("slice bounds out of range [::%d] with capacity %d", m, Cap))
	}
	if h < 0 || h > m {
		ex.rtPanic(fmt.Sprintf("slice bounds out of range [:%d] with capacity %d", h, m))
	}
	if l < 0 || l > h {
		ex.rtPanic(fmt.Sprintf("slice bounds out of range [%d:%d]", l, h))
	}
	switch x := x.(type) {
	case string:
		return x[l:h]
	case SymStr:
		return normStr(x[l:h])
	case []Value:
		if x == nil {
			return x
		}
		return x[l:h:m]
	case *Value:
		a := (*x).(Array)
		return []Value(a)[l:h:m]
	}
	panic("unreachable")
}

func (ex *Exec) sliceToArrayPointer(tDst, tSrc types.Type, x Value) Value {
	arr := deref(tDst).Underlying().(*types.Array)
	xs := x.([]Value)
	if arr.Len() > int64(len(xs)) {
		ex.rtPanic("cannot convert slice to array pointer: length too short")
	}
	if xs == nil {
		return zero(tDst)
	}
	v := Value(Array(xs[:arr.Len()]))
	return &v
}

// ---------- type assertion ----------

func (ex *Exec) typeAssert(instr *ssa.TypeAssert, itf Iface) Value {
	var v Value
	err := ""
	if itf.t == nil {
		err = fmt.Sprintf("interface conversion: interface is nil, not %s", instr.AssertedType)
	} else if idst, ok := instr.AssertedType.Underlying().(*types.Interface); ok {
		v = itf
		if meth, _ := types.MissingMethod(itf.t, idst, true); meth != nil {
			err = fmt.Sprintf("interface conversion: %v is not %v: missing method %s", itf.t, idst, meth.Name())
		}
	} else if types.Identical(itf.t, instr.AssertedType) {
		v = itf.v
	} else {
		err = fmt.Sprintf("interface conversion: interface is %s, not %s", itf.t, instr.AssertedType)
	}
	if err != "" {
		if !instr.CommaOk {
			panic(targetPanic{Iface{t: ex.prog.runtimeErrorType(), v: err}})
		}
		return Tuple{zero(instr.AssertedType), false}
	}
	if instr.CommaOk {
		return Tuple{v, true}
	}
	return v
}

// ---------- conversions ----------

func (ex *Exec) conv(fr *frame, tDst, tSrc types.Type, x Value) Value {
	utSrc := tSrc.Underlying()
	utDst := tDst.Underlying()
	switch utSrc := utSrc.(type) {
	case *types.Pointer:
		if b, ok := utDst.(*types.Basic); ok && b.Kind() == types.UnsafePointer {
			return x
		}
	case *types.Slice:
		eb, _ := utSrc.Elem().Underlying().(*types.Basic)
		if eb != nil && isString(tDst) {
			switch eb.Kind() {
			case types.Byte:
				return bytesToStr(x.([]Value))
			case types.Rune:
				xs := x.([]Value)
				var out []byte
				for _, r := range xs {
					rb := r.(BV)
					if rb.t != nil {
						ex.unsupported(fr, "string([]rune) with symbolic rune")
					}
					out = utf8.AppendRune(out, rune(int32(rb.c)))
				}
				return string(out)
			}
		}
	case *types.Basic:
		if utSrc.Kind() == types.UnsafePointer {
			if _, ok := utDst.(*types.Pointer); ok {
				return x
			}
			return x
		}
		if utSrc.Info()&types.IsString != 0 {
			switch utDst := utDst.(type) {
			case *types.Slice:
				switch utDst.Elem().Underlying().(*types.Basic).Kind() {
				case types.Rune:
					s, ok := x.(string)
					if !ok {
						ex.unsupported(fr, "[]rune(symbolic string)")
					}
					var res []Value
					for _, r := range []rune(s) {
						res = append(res, mkBV(32, uint64(uint32(r))))
					}
					return res
				case types.Byte:
					return strToBytes(x)
				}
			case *types.Basic:
				if utDst.Info()&types.IsString != 0 {
					return x
				}
			}
			break
		}
		dstB, ok := utDst.(*types.Basic)
		if !ok {
			break
		}
		if utSrc.Info()&types.IsInteger != 0 {
			xb := x.(BV)
			sw, ssigned, _ := basicWidth(utSrc.Kind())
			if dstB.Info()&types.IsString != 0 {
				// rune -> string
				if xb.t != nil {
					c := ex.Concretize(xb.t)
					xb = mkBV(sw, c)
				}
				r := sext(xb.c, sw)
				if !ssigned {
					r = int64(xb.c)
				}
				if r < 0 || r > utf8.MaxRune {
					r = utf8.RuneError
				}
				return string(rune(r))
			}
			if dw, _, ok := basicWidth(dstB.Kind()); ok {
				if xb.t == nil {
					if ssigned {
						return mkBV(dw, uint64(sext(xb.c, sw)))
					}
					return mkBV(dw, xb.c)
				}
				if dw <= sw {
					return ex.fromTerm(ex.tb.Extract(xb.t, dw-1, 0))
				}
				if ssigned {
					return ex.fromTerm(ex.tb.SExt(xb.t, dw))
				}
				return ex.fromTerm(ex.tb.ZExt(xb.t, dw))
			}
			if dstB.Info()&types.IsFloat != 0 {
				if xb.t != nil {
					ex.unsupported(fr, "int->float of symbolic value")
				}
				var f float64
				if ssigned {
					f = float64(sext(xb.c, sw))
				} else {
					f = float64(xb.c)
				}
				if dstB.Kind() == types.Float32 {
					return float32(f)
				}
				return f
			}
		}
		if utSrc.Info()&types.IsFloat != 0 {
			var f float64
			switch xf := x.(type) {
			case float32:
				f = float64(xf)
			case float64:
				f = xf
			}
			if dw, dsigned, ok := basicWidth(dstB.Kind()); ok {
				if dsigned {
					return mkBV(dw, uint64(int64(f)))
				}
				if f < 0 {
					return mkBV(dw, uint64(int64(f)))
				}
				if f >= math.MaxInt64 {
					return mkBV(dw, uint64(f))
				}
				return mkBV(dw, uint64(f))
			}
			switch dstB.Kind() {
			case types.Float32:
				return float32(f)
			case types.Float64:
				return f
			}
		}
	}
	panic(engineError{fmt.Sprintf("unsupported conversion: %s -> %s, dynamic type %T", tSrc, tDst, x)})
}

// ---------- maps ----------

type Map struct {
	keys []Value
	vals []Value
	idx  map[interface{}]int // concrete hashable keys -> position
	dead int
}

func concKey(v Value) (interface{}, bool) {
	switch k := v.(type) {
	case string, bool, float64, float32, *Value, *Chan:
		return k, true
	case BV:
		if k.t == nil {
			return k, true
		}
	case Iface:
		if k.t == nil {
			return Iface{}, true
		}
		if ck, ok := concKey(k.v); ok {
			return [2]interface{}{k.t.String(), ck}, true
		}
	}
	return nil, false
}

// mapFind returns the position of key k, forking on symbolic equalities.
func (ex *Exec) mapFind(m *Map, kt types.Type, k Value) int {
	if m == nil {
		return -1
	}
	ck, conc := concKey(k)
	if conc && m.idx != nil && len(m.idx)+m.dead == len(m.keys) {
		if i, ok := m.idx[ck]; ok {
			return i
		}
		return -1
	}
	for i := range m.keys {
		if m.keys[i] == nil {
			continue
		}
		if _, kc := concKey(m.keys[i]); kc && conc {
			ck2, _ := concKey(m.keys[i])
			if ck2 == ck {
				return i
			}
			continue
		}
		if ex.Decide(ex.eqTerm(kt, m.keys[i], k)) {
			return i
		}
	}
	return -1
}

func (ex *Exec) mapInsert(m *Map, kt types.Type, k, v Value) {
	if i := ex.mapFind(m, kt, k); i >= 0 {
		m.vals[i] = v
		return
	}
	k = copyVal(k)
	m.keys = append(m.keys, k)
	m.vals = append(m.vals, v)
	if ck, ok := concKey(k); ok {
		if m.idx == nil {
			m.idx = map[interface{}]int{}
		}
		m.idx[ck] = len(m.keys) - 1
	}
}

func (ex *Exec) mapDelete(m *Map, kt types.Type, k Value) {
	if i := ex.mapFind(m, kt, k); i >= 0 {
		if ck, ok := concKey(m.keys[i]); ok {
			delete(m.idx, ck)
		}
		m.keys[i] = nil
		m.vals[i] = nil
		m.dead++
	}
}

func (m *Map) length() int {
	if m == nil {
		return 0
	}
	return len(m.keys) - m.dead
}

func (ex *Exec) lookup(fr *frame, instr *ssa.Lookup, x, idx Value) Value {
	m, ok := x.(*Map)
	if !ok {
		panic(engineError{fmt.Sprintf("unexpected x type in Lookup: %T", x)})
	}
	mt := instr.X.Type().Underlying().(*types.Map)
	i := ex.mapFind(m, mt.Key(), idx)
	var v Value
	if i >= 0 {
		v = copyVal(m.vals[i])
	} else {
		v = zero(mt.Elem())
	}
	if instr.CommaOk {
		return Tuple{v, i >= 0}
	}
	return v
}

// ---------- iteration ----------

type iter interface{ next() Tuple }

type mapIter struct {
	m   *Map
	pos int
}

func (it *mapIter) next() Tuple {
	if it.m != nil {
		for it.pos < len(it.m.keys) {
			i := it.pos
			it.pos++
			if it.m.keys[i] != nil {
				return Tuple{true, it.m.keys[i], it.m.vals[i]}
			}
		}
	}
	return Tuple{false, nil, nil}
}

type strIter struct {
	ex  *Exec
	fr  *frame
	s   Value
	pos int
}

func (it *strIter) next() Tuple {
	n := strLen(it.s)
	if it.pos >= n {
		return Tuple{false, nil, nil}
	}
	i := it.pos
	b := strAt(it.s, i)
	if b.t == nil && b.c < utf8.RuneSelf {
		it.pos++
		return Tuple{true, intVal(i), mkBV(32, b.c)}
	}
	if s, ok := it.s.(string); ok {
		r, sz := utf8.DecodeRuneInString(s[i:])
		it.pos += sz
		return Tuple{true, intVal(i), mkBV(32, uint64(uint32(r)))}
	}
	// symbolic: run the real decoder
	res := it.ex.callByName(it.fr, "unicode/utf8.DecodeRuneInString", []Value{strSlice(it.s, i, n)}).(Tuple)
	sz := it.ex.concInt(res[1])
	it.pos += int(sz)
	return Tuple{true, intVal(i), res[0]}
}

func (ex *Exec) rangeIter(fr *frame, x Value, t types.Type) iter {
	switch x := x.(type) {
	case *Map:
		return &mapIter{m: x}
	case string, SymStr:
		return &strIter{ex: ex, fr: fr, s: x}
	}
	panic(engineError{fmt.Sprintf("cannot range over %T", x)})
}

// ---------- builtins ----------

func (ex *Exec) callBuiltin(caller *frame, callpos token.Pos, fn *ssa.Builtin, args []Value) Value {
	switch fn.Name() {
	case "append":
		if len(args) == 1 {
			return args[0]
		}
		switch a1 := args[1].(type) {
		case string, SymStr:
			return append(args[0].([]Value), strCells(a1)...)
		case []Value:
			src := a1
			needCopy := false
			for _, c := range src {
				switch c.(type) {
				case Struct, Array:
					needCopy = true
				}
				break
			}
			if needCopy {
				cp := make([]Value, len(src))
				for i := range src {
					cp[i] = copyVal(src[i])
				}
				src = cp
			}
			return append(args[0].([]Value), src...)
		}
	case "copy":
		var src []Value
		switch s := args[1].(type) {
		case string, SymStr:
			src = strCells(s)
		case []Value:
			src = s
		}
		dst := args[0].([]Value)
		n := len(dst)
		if len(src) < n {
			n = len(src)
		}
		// memmove semantics
		tmp := make([]Value, n)
		for i := 0; i < n; i++ {
			tmp[i] = copyVal(src[i])
		}
		copy(dst, tmp)
		return intVal(n)
	case "close":
		ch, _ := args[0].(*Chan)
		if ch == nil {
			ex.rtPanic("close of nil channel")
		}
		if ch.closed {
			ex.rtPanic("close of closed channel")
		}
		ch.closed = true
		return nil
	case "delete":
		m := args[0].(*Map)
		if m == nil {
			return nil
		}
		kt := fn.Type().(*types.Signature).Params().At(0).Type().Underlying().(*types.Map).Key()
		ex.mapDelete(m, kt, args[1])
		return nil
	case "clear":
		switch x := args[0].(type) {
		case *Map:
			if x != nil {
				x.keys, x.vals, x.idx, x.dead = nil, nil, nil, 0
			}
		case []Value:
			et := fn.Type().(*types.Signature).Params().At(0).Type().Underlying().(*types.Slice).Elem()
			for i := range x {
				x[i] = zero(et)
			}
		}
		return nil
	case "print", "println":
		return nil
	case "len":
		switch x := args[0].(type) {
		case string:
			return intVal(len(x))
		case SymStr:
			return intVal(len(x))
		case Array:
			return intVal(len(x))
		case *Value:
			return intVal(len((*x).(Array)))
		case []Value:
			return intVal(len(x))
		case *Map:
			return intVal(x.length())
		case *Chan:
			return intVal(0)
		}
		panic(engineError{fmt.Sprintf("len: illegal operand: %T", args[0])})
	case "cap":
		switch x := args[0].(type) {
		case Array:
			return intVal(len(x))
		case *Value:
			return intVal(len((*x).(Array)))
		case []Value:
			return intVal(cap(x))
		case *Chan:
			return intVal(0)
		}
		panic(engineError{fmt.Sprintf("cap: illegal operand: %T", args[0])})
	case "min", "max":
		t := fn.Type().(*types.Signature).Params().At(0).Type()
		x := args[0]
		for _, a := range args[1:] {
			var c Value
			if fn.Name() == "min" {
				c = ex.binop(caller, token.LSS, t, a, x)
			} else {
				c = ex.binop(caller, token.GTR, t, a, x)
			}
			switch cv := c.(type) {
			case bool:
				if cv {
					x = a
				}
			case SBool:
				if xb, ok := x.(BV); ok {
					x = ex.fromTerm(ex.tb.Ite(cv.t, ex.term(a.(BV)), ex.term(xb)))
				} else if ex.Decide(cv.t) {
					x = a
				}
			}
		}
		return x
	case "panic":
		panic(targetPanic{args[0]})
	case "recover":
		return ex.doRecover(caller)
	case "ssa:wrapnilchk":
		recv := args[0]
		if p, ok := recv.(*Value); ok && p == nil {
			ex.rtPanic(fmt.Sprintf("value method %s.%s called using nil pointer", toString(args[1]), toString(args[2])))
		}
		return recv
	case "ssa:deferstack":
		return &caller.defers
	}
	panic(engineError{"unknown built-in: " + fn.Name()})
}

// deepEq: structural equality of two values as a boolean term (used by
// verifrt.SameState). Functions compare equal (they carry no data the
// harness could have changed); pointers, maps and channels compare by
// identity.
func (ex *Exec) deepEq(x, y Value) *Term {
	switch a := x.(type) {
	case nil:
		if y == nil {
			return ex.tb.tt
		}
		return ex.tb.ff
	case BV:
		b, ok := y.(BV)
		if !ok {
			return ex.tb.ff
		}
		if a.t == nil && b.t == nil {
			if a.c == b.c && a.w == b.w {
				return ex.tb.tt
			}
			return ex.tb.ff
		}
		return ex.tb.Eq(ex.term(a), ex.term(b))
	case bool, SBool:
		switch y.(type) {
		case bool, SBool:
			ta, tb := ex.boolTerm(x), ex.boolTerm(y)
			return ex.tb.BOr(ex.tb.BAnd(ta, tb), ex.tb.BAnd(ex.tb.BNot(ta), ex.tb.BNot(tb)))
		}
		return ex.tb.ff
	case string, SymStr:
		switch y.(type) {
		case string, SymStr:
			return ex.strEq(x, y)
		}
		return ex.tb.ff
	case Struct:
		b, ok := y.(Struct)
		if !ok || len(a) != len(b) {
			return ex.tb.ff
		}
		return ex.deepEqList([]Value(a), []Value(b))
	case Array:
		b, ok := y.(Array)
		if !ok || len(a) != len(b) {
			return ex.tb.ff
		}
		return ex.deepEqList([]Value(a), []Value(b))
	case Tuple:
		b, ok := y.(Tuple)
		if !ok || len(a) != len(b) {
			return ex.tb.ff
		}
		return ex.deepEqList([]Value(a), []Value(b))
	case []Value:
		b, ok := y.([]Value)
		if !ok || len(a) != len(b) {
			return ex.tb.ff
		}
		return ex.deepEqList(a, b)
	case Iface:
		b, ok := y.(Iface)
		if !ok {
			return ex.tb.ff
		}
		if (a.t == nil) != (b.t == nil) {
			return ex.tb.ff
		}
		if a.t == nil {
			return ex.tb.tt
		}
		if !types.Identical(a.t, b.t) {
			return ex.tb.ff
		}
		return ex.deepEq(a.v, b.v)
	case *Closure, Closure, *ssa.Function, *ssa.Builtin:
		return ex.tb.tt
	}
	if x == y {
		return ex.tb.tt
	}
	return ex.tb.ff
}

func (ex *Exec) deepEqList(a, b []Value) *Term {
	var conj []*Term
	for i := range a {
		t := ex.deepEq(a[i], b[i])
		if t == ex.tb.ff {
			return ex.tb.ff
		}
		if t != ex.tb.tt {
			conj = append(conj, t)
		}
	}
	return ex.tb.BAnd(conj...)
}
