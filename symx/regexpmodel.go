package main

// regexp is cut at its API: patterns and subjects that are concrete are
// handled by the native regexp package; a symbolic subject ends the path
// as unsupported (the regexp engine is not encoded).

import (
	"regexp"
)

type nativeRegexp struct{ re *regexp.Regexp }

func reOf(ex *Exec, fr *frame, v Value) *regexp.Regexp {
	p, ok := v.(*Value)
	if !ok || p == nil {
		ex.rtPanic("invalid memory address or nil pointer dereference (nil *regexp.Regexp)")
	}
	n, ok := (*p).(nativeRegexp)
	if !ok {
		ex.unsupported(fr, "regexp value not created through regexp.Compile")
	}
	return n.re
}

func init() {
	compile := func(must bool) intrinsic {
		return func(ex *Exec, fr *frame, a []Value) Value {
			pat, ok := a[0].(string)
			if !ok {
				ex.unsupported(fr, "regexp.Compile of a symbolic pattern")
			}
			re, err := regexp.Compile(pat)
			if err != nil {
				if must {
					panic(targetPanic{Iface{t: ex.prog.rtErr, v: "regexp: Compile(" + pat + "): " + err.Error()}})
				}
				return Tuple{(*Value)(nil), ex.callByName(fr, "errors.New", []Value{err.Error()})}
			}
			cell := new(Value)
			*cell = nativeRegexp{re}
			if must {
				return cell
			}
			return Tuple{cell, Iface{}}
		}
	}
	intrinsics["regexp.MustCompile"] = compile(true)
	intrinsics["regexp.Compile"] = compile(false)
	intrinsics["(*regexp.Regexp).MatchString"] = func(ex *Exec, fr *frame, a []Value) Value {
		s, ok := a[1].(string)
		if !ok {
			ex.unsupported(fr, "regexp match on a symbolic string")
		}
		return reOf(ex, fr, a[0]).MatchString(s)
	}
	intrinsics["(*regexp.Regexp).Match"] = func(ex *Exec, fr *frame, a []Value) Value {
		b, ok := goBytes(a[1].([]Value))
		if !ok {
			ex.unsupported(fr, "regexp match on symbolic bytes")
		}
		return reOf(ex, fr, a[0]).Match(b)
	}
	intrinsics["(*regexp.Regexp).FindAllString"] = func(ex *Exec, fr *frame, a []Value) Value {
		s, ok := a[1].(string)
		n, okn := a[2].(BV)
		if !ok || !okn || !n.IsConc() {
			ex.unsupported(fr, "regexp FindAllString on symbolic arguments")
		}
		ms := reOf(ex, fr, a[0]).FindAllString(s, int(n.Signed()))
		if ms == nil {
			return []Value(nil)
		}
		out := make([]Value, len(ms))
		for i, m := range ms {
			out[i] = m
		}
		return out
	}
	intrinsics["(*regexp.Regexp).FindString"] = func(ex *Exec, fr *frame, a []Value) Value {
		s, ok := a[1].(string)
		if !ok {
			ex.unsupported(fr, "regexp FindString on a symbolic string")
		}
		return reOf(ex, fr, a[0]).FindString(s)
	}
	intrinsics["(*regexp.Regexp).String"] = func(ex *Exec, fr *frame, a []Value) Value {
		return reOf(ex, fr, a[0]).String()
	}
}
