package main

import (
	"fmt"
	"go/types"
	"strconv"
	"strings"
)

// renderUnder renders an observed value under a model, in the canonical
// form used by verifrt.Render natively.
func (ex *Exec) renderUnder(v Value, m *Model) string {
	itf, ok := v.(Iface)
	if !ok {
		return ex.renderPlain(nil, v, m)
	}
	if itf.t == nil {
		return "<nil>"
	}
	return ex.renderPlain(itf.t, itf.v, m)
}

func (ex *Exec) evalBV(b BV, m *Model) uint64 {
	if b.t == nil {
		return b.c
	}
	return ex.tb.Eval(b.t, m)
}

func (ex *Exec) cellsUnder(cells []Value, m *Model) string {
	out := make([]byte, len(cells))
	for i, c := range cells {
		out[i] = byte(ex.evalBV(c.(BV), m))
	}
	return string(out)
}

func (ex *Exec) renderPlain(t types.Type, v Value, m *Model) string {
	switch x := v.(type) {
	case string:
		return strconv.Quote(x)
	case SymStr:
		return strconv.Quote(ex.cellsUnder(x, m))
	case bool:
		return strconv.FormatBool(x)
	case SBool:
		return strconv.FormatBool(ex.tb.Eval(x.t, m) != 0)
	case BV:
		val := ex.evalBV(x, m)
		signed := true
		if t != nil {
			_, signed, _ = intInfo(t)
		}
		if signed {
			return strconv.FormatInt(sext(val, int(x.w)), 10)
		}
		return strconv.FormatUint(val, 10)
	case []Value:
		if t != nil {
			if sl, ok := t.Underlying().(*types.Slice); ok {
				if isString(sl.Elem()) {
					parts := make([]string, len(x))
					for i, e := range x {
						parts[i] = ex.renderPlain(sl.Elem(), e, m)
					}
					return "[" + strings.Join(parts, " ") + "]"
				}
			}
		}
		return strconv.Quote(ex.cellsUnder(x, m))
	case *Value:
		if t != nil && types.Implements(t, errorIface()) {
			if x == nil {
				return "<nil>"
			}
			return "error"
		}
	}
	if t != nil && types.Implements(t, errorIface()) {
		return "error"
	}
	return fmt.Sprintf("?%T", v)
}

func errorIface() *types.Interface {
	return types.Universe.Lookup("error").Type().Underlying().(*types.Interface)
}
