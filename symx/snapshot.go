package main

// Snapshot/restore of a target package's initialised globals, so that the
// (deterministic, input-free) package initialiser is interpreted once per
// worker instead of once per path. Restoring deep-copies the snapshot with
// aliasing preserved, so paths still cannot influence each other.

import (
	"golang.org/x/tools/go/ssa"
)

type pkgSnapshot struct {
	cells map[*ssa.Global]*Value // snapshot cells (never handed to a path)
	ok    bool
}

type copier struct {
	ptrs   map[*Value]*Value
	maps   map[*Map]*Map
	slices map[*Value][]Value // keyed by address of first element of the full-capacity backing
	clos   map[*Closure]*Closure
	bad    func(p *Value) bool
	failed bool
}

func newCopier() *copier {
	return &copier{ptrs: map[*Value]*Value{}, maps: map[*Map]*Map{}, slices: map[*Value][]Value{}, clos: map[*Closure]*Closure{}}
}

func (c *copier) copy(v Value) Value {
	switch x := v.(type) {
	case Struct:
		out := make(Struct, len(x))
		for i := range x {
			out[i] = c.copy(x[i])
		}
		return out
	case Array:
		out := make(Array, len(x))
		for i := range x {
			out[i] = c.copy(x[i])
		}
		return out
	case Tuple:
		out := make(Tuple, len(x))
		for i := range x {
			out[i] = c.copy(x[i])
		}
		return out
	case Iface:
		return Iface{t: x.t, v: c.copy(x.v)}
	case []Value:
		if x == nil {
			return x
		}
		full := x[:cap(x)]
		if len(full) == 0 {
			return make([]Value, 0)
		}
		key := &full[0]
		if cp, ok := c.slices[key]; ok {
			return cp[:len(x):cap(x)]
		}
		cp := make([]Value, len(full))
		c.slices[key] = cp
		for i := range full {
			cp[i] = c.copy(full[i])
		}
		return cp[:len(x):cap(x)]
	case *Value:
		if x == nil {
			return x
		}
		if n, ok := c.ptrs[x]; ok {
			return n
		}
		if c.bad != nil && c.bad(x) {
			c.failed = true
			return x
		}
		n := new(Value)
		c.ptrs[x] = n
		*n = c.copy(*x)
		return n
	case *Map:
		if x == nil {
			return x
		}
		if n, ok := c.maps[x]; ok {
			return n
		}
		n := &Map{dead: x.dead}
		c.maps[x] = n
		n.keys = make([]Value, len(x.keys))
		n.vals = make([]Value, len(x.vals))
		for i := range x.keys {
			n.keys[i] = c.copy(x.keys[i])
			n.vals[i] = c.copy(x.vals[i])
		}
		if x.idx != nil {
			n.idx = make(map[interface{}]int, len(x.idx))
			for i, k := range n.keys {
				if k == nil {
					continue
				}
				if ck, ok := concKey(k); ok {
					n.idx[ck] = i
				}
			}
		}
		return n
	case *Closure:
		if x == nil {
			return x
		}
		if n, ok := c.clos[x]; ok {
			return n
		}
		n := &Closure{Fn: x.Fn}
		c.clos[x] = n
		n.Env = make([]Value, len(x.Env))
		for i := range x.Env {
			n.Env[i] = c.copy(x.Env[i])
		}
		return n
	case *SymPtr:
		c.failed = true
		return x
	}
	return v // scalars, strings, functions, channels: immutable
}

// takeSnapshot copies pkg's freshly initialised globals.
func (ex *Exec) takeSnapshot(pkg *ssa.Package) {
	if ex.snaps == nil {
		ex.snaps = map[*ssa.Package]*pkgSnapshot{}
	}
	snap := &pkgSnapshot{cells: map[*ssa.Global]*Value{}}
	c := newCopier()
	foreign := map[*Value]bool{}
	for g, cell := range ex.globals {
		if g.Pkg != pkg {
			foreign[cell] = true
		}
	}
	c.bad = func(p *Value) bool { return foreign[p] }
	for _, m := range pkg.Members {
		if g, ok := m.(*ssa.Global); ok {
			n := new(Value)
			c.ptrs[ex.globals[g]] = n
			snap.cells[g] = n
		}
	}
	for g, n := range snap.cells {
		*n = c.copy(*ex.globals[g])
	}
	snap.ok = !c.failed
	ex.snaps[pkg] = snap
}

// restoreSnapshot installs fresh copies of the snapshot as this path's globals.
func (ex *Exec) restoreSnapshot(pkg *ssa.Package, snap *pkgSnapshot) {
	c := newCopier()
	fresh := map[*ssa.Global]*Value{}
	for g, cell := range snap.cells {
		n := new(Value)
		c.ptrs[cell] = n
		fresh[g] = n
	}
	for g, cell := range snap.cells {
		*fresh[g] = c.copy(*cell)
		ex.globals[g] = fresh[g]
	}
}
