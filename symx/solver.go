package main

// Solver: one long-lived `z3 -in` process per executor, incremental
// push/pop. Definitions of terms are emitted lazily as define-fun and are
// tracked per scope so that they are re-emitted after a pop.

import (
	"bufio"
	"fmt"
	"io"
	"os"
	"os/exec"
	"strconv"
	"strings"
	"time"
)

type Result int

const (
	Unsat Result = iota
	Sat
	Unknown
)

func (r Result) String() string { return [...]string{"unsat", "sat", "unknown"}[r] }

type SolverStats struct {
	Queries   int
	Sat       int
	Unsat     int
	Unknown   int
	Time      time.Duration
	Errors    int
	Restarts  int
	SlowQuery time.Duration
}

type Solver struct {
	tb      *TermTable
	cmd     *exec.Cmd
	in      io.WriteCloser
	out     *bufio.Reader
	buf     strings.Builder
	defined map[int]bool // term ids (and var ids) currently defined in solver
	ufDecl  map[string]bool
	trail   []int // ids in order of definition
	ufTrail []string
	marks   [][2]int // per push: len(trail), len(ufTrail)
	Stats   SolverStats
	bin     string
	args    []string
	log     io.Writer
	timeout int // ms per check-sat
	Gen     int // bumped whenever the solver lost its assertions
}

func NewSolver(tb *TermTable, timeoutMs int) *Solver {
	s := &Solver{tb: tb, bin: envDefault("SYMX_SOLVER", "z3-new"), timeout: timeoutMs}
	s.args = []string{"-in", "-smt2", fmt.Sprintf("-t:%d", timeoutMs)}
	if p := os.Getenv("SYMX_SMTLOG"); p != "" {
		f, err := os.Create(p)
		if err == nil {
			s.log = f
		}
	}
	s.start()
	return s
}

func (s *Solver) start() {
	s.cmd = exec.Command(s.bin, s.args...)
	in, err := s.cmd.StdinPipe()
	if err != nil {
		panic(err)
	}
	out, err := s.cmd.StdoutPipe()
	if err != nil {
		panic(err)
	}
	s.cmd.Stderr = os.Stderr
	if err := s.cmd.Start(); err != nil {
		panic(engineError{"cannot start solver: " + err.Error()})
	}
	s.in = in
	s.out = bufio.NewReaderSize(out, 1<<16)
	s.defined = map[int]bool{}
	s.ufDecl = map[string]bool{}
	s.trail = nil
	s.ufTrail = nil
	s.marks = nil
	s.buf.Reset()
	s.send("(set-option :produce-models true)\n(set-logic ALL)\n")
}

func (s *Solver) Close() {
	if s.cmd != nil {
		s.in.Close()
		s.cmd.Process.Kill()
		s.cmd.Wait()
		s.cmd = nil
	}
}

func (s *Solver) send(str string) {
	s.buf.WriteString(str)
}

func (s *Solver) flush() {
	if s.buf.Len() == 0 {
		return
	}
	str := s.buf.String()
	s.buf.Reset()
	if s.log != nil {
		io.WriteString(s.log, str)
	}
	if _, err := io.WriteString(s.in, str); err != nil {
		panic(engineError{"solver write: " + err.Error()})
	}
}

func (s *Solver) readLineErr() (string, error) {
	line, err := s.out.ReadString('\n')
	if err != nil {
		return "", err
	}
	if s.log != nil {
		io.WriteString(s.log, "; <- "+line)
	}
	return strings.TrimRight(line, "\r\n"), nil
}

// Reset clears the solver state completely (all scopes).
func (s *Solver) Reset() {
	s.defined = map[int]bool{}
	s.ufDecl = map[string]bool{}
	s.trail = s.trail[:0]
	s.ufTrail = s.ufTrail[:0]
	s.marks = s.marks[:0]
	s.send("(reset)\n(set-option :produce-models true)\n(set-logic ALL)\n")
	s.Gen++
}

func (s *Solver) readLine() string {
	line, err := s.out.ReadString('\n')
	if err != nil {
		panic(engineError{"solver read: " + err.Error()})
	}
	if s.log != nil {
		io.WriteString(s.log, "; <- "+line)
	}
	return strings.TrimRight(line, "\r\n")
}

func (s *Solver) Push() {
	s.marks = append(s.marks, [2]int{len(s.trail), len(s.ufTrail)})
	s.send("(push 1)\n")
}

func (s *Solver) Pop() {
	m := s.marks[len(s.marks)-1]
	s.marks = s.marks[:len(s.marks)-1]
	for _, id := range s.trail[m[0]:] {
		delete(s.defined, id)
	}
	s.trail = s.trail[:m[0]]
	for _, n := range s.ufTrail[m[1]:] {
		delete(s.ufDecl, n)
	}
	s.ufTrail = s.ufTrail[:m[1]]
	s.send("(pop 1)\n")
}

func (s *Solver) Level() int { return len(s.marks) }

// define makes sure t (and everything below it) is known to the solver.
func (s *Solver) define(t *Term) {
	if t.op == OpConst || s.defined[t.id] {
		return
	}
	// iterative post-order to avoid deep recursion
	type fr struct {
		t *Term
		i int
	}
	stack := []fr{{t, 0}}
	for len(stack) > 0 {
		f := &stack[len(stack)-1]
		if f.i < len(f.t.args) {
			a := f.t.args[f.i]
			f.i++
			if a.op != OpConst && !s.defined[a.id] {
				stack = append(stack, fr{a, 0})
			}
			continue
		}
		u := f.t
		stack = stack[:len(stack)-1]
		if s.defined[u.id] {
			continue
		}
		switch u.op {
		case OpVar:
			s.send(fmt.Sprintf("(declare-const %s %s)\n", u.name, sortStr(u.w)))
		case OpUF:
			if !s.ufDecl[u.name] {
				sig := s.tb.ufs[u.name]
				var sb strings.Builder
				for _, w := range sig[:len(sig)-1] {
					sb.WriteString(sortStr(w) + " ")
				}
				s.send(fmt.Sprintf("(declare-fun %s (%s) %s)\n", u.name, sb.String(), sortStr(sig[len(sig)-1])))
				s.ufDecl[u.name] = true
				s.ufTrail = append(s.ufTrail, u.name)
			}
			s.send(fmt.Sprintf("(define-fun t%d () %s %s)\n", u.id, sortStr(u.w), u.body()))
		default:
			s.send(fmt.Sprintf("(define-fun t%d () %s %s)\n", u.id, sortStr(u.w), u.body()))
		}
		s.defined[u.id] = true
		s.trail = append(s.trail, u.id)
	}
}

func (s *Solver) Assert(t *Term) {
	if t.w != 0 {
		panic("Assert of non-bool")
	}
	s.define(t)
	s.send("(assert " + t.ref() + ")\n")
}

// Check runs check-sat. Any solver "(error" output is an engine error.
func (s *Solver) Check() Result {
	s.send("(check-sat)\n")
	start := time.Now()
	s.flush()
	var r Result
	killed := false
	wd := time.AfterFunc(time.Duration(s.timeout)*time.Millisecond+5*time.Second, func() {
		killed = true
		s.cmd.Process.Kill()
	})
	defer wd.Stop()
	for {
		line, rerr := s.readLineErr()
		if rerr != nil {
			if killed {
				// the solver ignored its soft timeout: restart it and
				// report unknown; the caller re-sends its assertions
				s.Stats.Restarts++
				s.cmd.Wait()
				s.start()
				s.Gen++
				r = Unknown
				break
			}
			panic(engineError{"solver read: " + rerr.Error()})
		}
		switch {
		case line == "sat":
			r = Sat
		case line == "unsat":
			r = Unsat
		case line == "unknown" || line == "timeout":
			r = Unknown
		case strings.HasPrefix(line, "(error"):
			s.Stats.Errors++
			panic(engineError{"solver error: " + line})
		case line == "":
			continue
		default:
			panic(engineError{"unexpected solver output: " + line})
		}
		break
	}
	d := time.Since(start)
	s.Stats.Queries++
	s.Stats.Time += d
	if d > s.Stats.SlowQuery {
		s.Stats.SlowQuery = d
	}
	switch r {
	case Sat:
		s.Stats.Sat++
	case Unsat:
		s.Stats.Unsat++
	default:
		s.Stats.Unknown++
	}
	return r
}

// GetModel fetches values of the given variable terms and UF application
// terms (after a Sat answer).
func (s *Solver) GetModel(vars []*Term, ufapps []*Term) *Model {
	m := &Model{vals: map[string]uint64{}}
	var all []*Term
	all = append(all, vars...)
	all = append(all, ufapps...)
	if len(all) == 0 {
		return m
	}
	var names []string
	for _, v := range all {
		if !s.defined[v.id] {
			// unconstrained in the solver: any value works; use 0
			continue
		}
		names = append(names, v.ref())
	}
	if len(names) == 0 {
		return m
	}
	s.send("(get-value (" + strings.Join(names, " ") + "))\n")
	s.flush()
	// Response: ((name val)\n (name val) ...) possibly over several lines.
	var sb strings.Builder
	depth := 0
	started := false
	for {
		line := s.readLine()
		if strings.HasPrefix(line, "(error") {
			panic(engineError{"solver error in get-value: " + line})
		}
		for _, ch := range line {
			if ch == '(' {
				depth++
				started = true
			} else if ch == ')' {
				depth--
			}
		}
		sb.WriteString(line)
		sb.WriteByte(' ')
		if started && depth == 0 {
			break
		}
	}
	toks := tokenize(sb.String())
	// parse pairs
	i := 0
	expect := func(t string) {
		if i >= len(toks) || toks[i] != t {
			panic(engineError{"model parse error near token " + strconv.Itoa(i) + ": " + sb.String()})
		}
		i++
	}
	expect("(")
	for i < len(toks) && toks[i] == "(" {
		i++
		name := toks[i]
		i++
		val, ni := parseValue(toks, i)
		i = ni
		expect(")")
		if strings.HasPrefix(name, "t") && isDigits(name[1:]) {
			if m.uf == nil {
				m.uf = map[string]uint64{}
			}
			m.uf[name] = val
		} else {
			m.vals[name] = val
		}
	}
	return m
}

func isDigits(s string) bool {
	if s == "" {
		return false
	}
	for _, c := range s {
		if c < '0' || c > '9' {
			return false
		}
	}
	return true
}

func tokenize(s string) []string {
	var toks []string
	i := 0
	for i < len(s) {
		c := s[i]
		switch {
		case c == '(' || c == ')':
			toks = append(toks, string(c))
			i++
		case c == ' ' || c == '\t' || c == '\n' || c == '\r':
			i++
		default:
			j := i
			for j < len(s) && !strings.ContainsRune("() \t\n\r", rune(s[j])) {
				j++
			}
			toks = append(toks, s[i:j])
			i = j
		}
	}
	return toks
}

func parseValue(toks []string, i int) (uint64, int) {
	t := toks[i]
	switch {
	case t == "true":
		return 1, i + 1
	case t == "false":
		return 0, i + 1
	case strings.HasPrefix(t, "#x"):
		v, err := strconv.ParseUint(t[2:], 16, 64)
		if err != nil {
			panic(engineError{"bad model value " + t})
		}
		return v, i + 1
	case strings.HasPrefix(t, "#b"):
		v, err := strconv.ParseUint(t[2:], 2, 64)
		if err != nil {
			panic(engineError{"bad model value " + t})
		}
		return v, i + 1
	case t == "(":
		// (_ bv123 8)
		if toks[i+1] == "_" && strings.HasPrefix(toks[i+2], "bv") {
			v, err := strconv.ParseUint(toks[i+2][2:], 10, 64)
			if err != nil {
				panic(engineError{"bad model value " + toks[i+2]})
			}
			return v, i + 5
		}
	}
	panic(engineError{"cannot parse model value at " + t})
}

type engineError struct{ msg string }

func (e engineError) Error() string { return "engine error: " + e.msg }
