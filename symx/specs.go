package main

// Registered checks: one entry per claimed property. Only bounds that ran
// clean on the unchanged tree are registered here.

func findSpec(id string) *CheckSpec {
	for i := range specs {
		if specs[i].ID == id {
			return &specs[i]
		}
	}
	return nil
}

var commonAssumptions = []string{
	"go/ssa (x/tools v0.29.0) builds a faithful SSA form of /repo's current source; the symx interpreter implements the SSA semantics (validated per run by replaying solver models of explored paths against the native build where the harness is natively runnable)",
	"assembly kernels internal/bytealg.{IndexByte,IndexByteString,Count,CountString,Equal,Compare} and bytes/strings.Index/LastIndex are modelled by their specification (first/last match, count, lexicographic order)",
	"z3 4.8.12 answers are correct; any (error or unknown makes the run inconclusive, never a pass",
	"stdlib package-level tables (unicode, strconv, ...) are initialised once per worker and assumed not to be mutated by the code under test",
}

var specs = []CheckSpec{
	{
		ID: "C03", Pkg: "txtar",
		Harnesses: []HarnessSpec{
			{Fn: "VerifC03Total", Quick: map[string]int{"N": 9}, Thorough: map[string]int{"N": 12}, Witness: []string{"parsed", "one-file"}, Native: true},
			{Fn: "VerifC03Ref", Quick: map[string]int{"N": 9}, Thorough: map[string]int{"N": 12}, Witness: []string{"parsed", "ref-one-file"}, Native: true},
		},
		Bounds: map[string]string{
			"quick":    "all byte strings of length <= 9 (every byte value); archives of up to 1 file reachable within that length",
			"thorough": "all byte strings of length <= 12",
		},
		Assumptions: commonAssumptions,
		Outside:     []string{"inputs longer than the bound", "ParseFile's os.ReadFile"},
	},
}
