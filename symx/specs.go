package main

// Registered checks: one entry per claimed property. Only bounds that ran
// clean on the unchanged tree are registered here.

func findSpec(id string) *CheckSpec {
	for i := range specs {
		if specs[i].ID == id {
			return &specs[i]
		}
	}
	return nil
}

var commonAssumptions = []string{
	"go/ssa (x/tools v0.29.0) builds a faithful SSA form of /repo's current source; the symx interpreter implements the SSA semantics (validated per run by replaying solver models of explored paths against the native build where the harness is natively runnable)",
	"assembly kernels internal/bytealg.{IndexByte,IndexByteString,Count,CountString,Equal,Compare} and bytes/strings.Index/LastIndex are modelled by their specification (first/last match, count, lexicographic order)",
	"z3 4.8.12 answers are correct; any (error or unknown makes the run inconclusive, never a pass",
	"stdlib package-level tables (unicode, strconv, ...) are initialised once per worker and assumed not to be mutated by the code under test",
}

var specs = []CheckSpec{
	{
		ID: "C03", Pkg: "txtar",
		Harnesses: []HarnessSpec{
			{Fn: "VerifC03Total", Quick: map[string]int{"N": 9}, Thorough: map[string]int{"N": 11}, Witness: []string{"parsed", "one-file"}, Native: true},
			{Fn: "VerifC03Ref", Quick: map[string]int{"N": 9}, Thorough: map[string]int{"N": 11}, Witness: []string{"parsed", "ref-one-file"}, Native: true},
			{Fn: "VerifC03WellFormed", Quick: map[string]int{"K": 2, "L": 2, "NL": 1}, Thorough: map[string]int{"K": 2, "L": 3, "NL": 2}, Witness: []string{"two-files"}, Native: true},
			{Fn: "VerifC03WellFormedBig", Quick: map[string]int{"L": 8}, Thorough: map[string]int{"L": 9}, Witness: []string{"body-long-enough-for-marker"}, Native: true},
			{Fn: "VerifC03CRLF", Quick: map[string]int{"N": 9}, Thorough: map[string]int{"N": 11}, Witness: []string{"marker-line-chosen", "eof-cr", "eof-crlf"}, Native: true},
		},
		Bounds: map[string]string{
			"quick":    "all byte strings of length <= 9 (every byte value); well-formed archives with <= 2 files (bodies <= 2 bytes, 1-byte names) and single-file archives with bodies <= 8 bytes (ASCII)",
			"thorough": "all byte strings of length <= 11; well-formed archives with <= 2 files, bodies <= 3 bytes, names <= 2 bytes, and single-file archives with bodies <= 9 bytes",
		},
		Assumptions: commonAssumptions,
		Outside:     []string{"inputs longer than the bound", "ParseFile's os.ReadFile"},
	},
	{
		ID: "C14", Pkg: "txtar",
		Harnesses: []HarnessSpec{
			{Fn: "VerifC14NeedsQuote", Quick: map[string]int{"N": 9}, Thorough: map[string]int{"N": 11}, Witness: []string{"needs-quote", "body-changes-parse"}, Native: true},
			{Fn: "VerifC14Quote", Quick: map[string]int{"N": 5}, Thorough: map[string]int{"N": 7}, Witness: []string{"quoted", "quote-refused"}, Native: true},
			{Fn: "VerifC14QuoteMarker", Quick: map[string]int{"N": 9}, Thorough: map[string]int{"N": 10}, Witness: []string{"quoted-a-marker"}, Native: true},
		},
		Bounds: map[string]string{
			"quick":    "NeedsQuote: all bodies of <= 9 bytes; Quote/Unquote: all bodies of <= 5 bytes, and all newline-terminated ASCII bodies of <= 9 bytes that contain a marker line",
			"thorough": "NeedsQuote: all bodies of <= 11 bytes; Quote/Unquote: <= 7 bytes; marker bodies <= 10 bytes",
		},
		Assumptions: commonAssumptions,
		Outside:     []string{"bodies longer than the bound"},
	},
}
