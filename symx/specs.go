package main

// Registered checks: one entry per claimed property. Only bounds that ran
// clean on the unchanged tree are registered here.

func findSpec(id string) *CheckSpec {
	for i := range specs {
		if specs[i].ID == id {
			return &specs[i]
		}
	}
	return nil
}

var commonAssumptions = []string{
	"go/ssa (x/tools v0.29.0) builds a faithful SSA form of /repo's current source; the symx interpreter implements the SSA semantics (validated per run by replaying solver models of explored paths against the native build where the harness is natively runnable)",
	"assembly kernels internal/bytealg.{IndexByte,IndexByteString,Count,CountString,Equal,Compare} and bytes/strings.Index/LastIndex are modelled by their specification (first/last match, count, lexicographic order)",
	"the solvers' answers (z3 5.1.0 incremental; z3 4.8.12, z3 5.1.0, cvc5 1.0 stand-alone) are correct; any (error or unknown makes the run inconclusive, never a pass",
	"stdlib package-level tables (unicode, strconv, ...) are initialised once per worker and assumed not to be mutated by the code under test",
}

var specs = []CheckSpec{
	{
		ID: "C03", Pkg: "txtar",
		Harnesses: []HarnessSpec{
			{Fn: "VerifC03Total", Quick: map[string]int{"N": 9}, Thorough: map[string]int{"N": 12}, Witness: []string{"parsed", "one-file"}, Native: true},
			{Fn: "VerifC03Ref", Quick: map[string]int{"N": 9}, Thorough: map[string]int{"N": 12}, Witness: []string{"parsed", "ref-one-file"}, Native: true},
			{Fn: "VerifC03WellFormed", Quick: map[string]int{"K": 2, "L": 2, "NL": 1}, Thorough: map[string]int{"K": 2, "L": 3, "NL": 2}, Witness: []string{"two-files"}, Native: true},
			{Fn: "VerifC03WellFormedBig", Quick: map[string]int{"L": 8}, Thorough: map[string]int{"L": 9}, Witness: []string{"body-long-enough-for-marker"}, Native: true},
			{Fn: "VerifC03CRLF", Quick: map[string]int{"N": 9}, Thorough: map[string]int{"N": 13}, Witness: []string{"marker-line-chosen", "eof-cr", "eof-crlf"}, Native: true},
		},
		Bounds: map[string]string{
			"quick":    "all byte strings of length <= 9 (every byte value); well-formed archives with <= 2 files (bodies <= 2 bytes, 1-byte names) and single-file archives with bodies <= 8 bytes (ASCII)",
			"thorough": "all byte strings of length <= 12; well-formed archives with <= 2 files, bodies <= 3 bytes, names <= 2 bytes, and single-file archives with bodies <= 9 bytes",
		},
		Assumptions: commonAssumptions,
		Outside:     []string{"inputs longer than the bound", "ParseFile's os.ReadFile"},
	},
	{
		ID: "C14", Pkg: "txtar",
		Harnesses: []HarnessSpec{
			{Fn: "VerifC14NeedsQuote", Quick: map[string]int{"N": 9}, Thorough: map[string]int{"N": 12}, Witness: []string{"needs-quote", "body-changes-parse"}, Native: true},
			{Fn: "VerifC14NeedsQuoteLines", Quick: map[string]int{"LINES": 3}, Thorough: map[string]int{"LINES": 4}, Witness: []string{"marker-like-line", "body-changes-parse"}, Native: true},
			{Fn: "VerifC14Quote", Quick: map[string]int{"N": 5}, Thorough: map[string]int{"N": 8}, Witness: []string{"quoted", "quote-refused"}, Native: true},
			{Fn: "VerifC14QuoteMarker", Quick: map[string]int{"N": 9}, Thorough: map[string]int{"N": 12}, Witness: []string{"quoted-a-marker"}, Native: true},
		},
		Bounds: map[string]string{
			"quick":    "NeedsQuote: all bodies of <= 9 bytes, and bodies of <= 3 lines from line templates (ordinary line of <= 1 byte, marker-like line \"-- \" + <= 2 bytes, marker line with a 1-byte name; last line with or without newline); Quote/Unquote: all bodies of <= 5 bytes, and all newline-terminated ASCII bodies of <= 9 bytes that contain a marker line",
			"thorough": "NeedsQuote: all bodies of <= 12 bytes; Quote/Unquote: <= 8 bytes; marker bodies <= 12 bytes",
		},
		Assumptions: commonAssumptions,
		Outside:     []string{"bodies longer than the bound"},
	},
	{
		ID: "C08", Pkg: "diff",
		Harnesses: []HarnessSpec{
			{Fn: "VerifC08Small", Quick: map[string]int{"P": 3, "Q": 3}, Thorough: map[string]int{"P": 5, "Q": 4}, Witness: []string{"identical", "hunks-parsed"}, Native: true},
			{Fn: "VerifC08AnchoredShort", Quick: map[string]int{"MLO": 3, "M": 5, "S": 1}, Thorough: map[string]int{"MLO": 1, "M": 5, "S": 1}, Witness: []string{"hunks-parsed"}, Native: true},
			{Fn: "VerifC08Anchored", Quick: map[string]int{"MLO": 7, "M": 7, "S": 1}, Thorough: map[string]int{"MLO": 6, "M": 9, "S": 1}, Witness: []string{"multi-hunk", "hunks-parsed"}, Native: true},
		},
		Bounds: map[string]string{
			"quick":    "all pairs of texts with <= 3 lines per side, each line one arbitrary byte (all equality patterns, with/without final newline per side); templates with 3..5 and with 7 common anchor lines and <= 1 arbitrary line before/after on each side (single- and multi-hunk output)",
			"thorough": "<= 5 old and <= 4 new lines; 1..5 and 6..9 anchor lines",
		},
		Assumptions: append([]string{"lines are opaque to the algorithm (only equality and concatenation of whole lines): one symbolic byte per line stands for arbitrary line contents"}, commonAssumptions...),
		Outside:     []string{"longer texts", "multi-byte line contents (spot-checked by the native suite only)", "decimal rendering inside fmt (concrete integers are rendered by the native fmt)"},
	},
	{
		ID: "C19", Pkg: "imports",
		Harnesses: []HarnessSpec{
			{Fn: "VerifC19Terms", Quick: map[string]int{"O": 2, "T": 2, "V": 2}, Thorough: map[string]int{"O": 2, "T": 2, "V": 6}, Witness: []string{"evaluated"}, Native: true},
			{Fn: "VerifC19TermsWide", Quick: map[string]int{"O": 1, "T": 2, "V": 10}, Thorough: map[string]int{"O": 1, "T": 3, "V": 10}, Witness: []string{"evaluated"}, Native: true},
			{Fn: "VerifC19Block", Quick: map[string]int{"I": 2}, Thorough: map[string]int{"I": 3}, Witness: []string{"effective-build-line", "ineffective-build-line"}, Native: true},
			{Fn: "VerifC19MatchFile", Quick: map[string]int{"S": 3}, Thorough: map[string]int{"S": 4}, Witness: []string{"matched"}, Native: true},
		},
		Bounds: map[string]string{
			"quick":    "+build lines with <= 2 options x <= 2 terms over {foo,linux} x {'', !, !!} and 1 option x <= 2 terms over the full vocabulary {foo,linux,android,ignore,a-b,'',bar,386}; leading blocks of <= 2 items (+build / other comment / blank, three spellings) + optional blank + three file tails; file names of <= 3 segments over 9 tokens x 3 suffix forms; every tag set over the vocabulary (symbolic booleans)",
			"thorough": "terms over 6 tags with 2x2 shape, 1x3 over 8; blocks of <= 3 items; file names of <= 4 segments",
		},
		Assumptions: append([]string{"the reference evaluator in the harness is written from the property text (OR of options, AND of terms, !, !! and malformed false, android selects linux, * accepts all but ignore)"}, commonAssumptions...),
		Outside:     []string{"tag names outside the vocabulary (Unicode letters)", "more than 3 leading items"},
	},
	{
		ID: "C18", Pkg: "imports",
		Harnesses: []HarnessSpec{
			{Fn: "VerifC18Slots", Quick: map[string]int{"PAIR": 1}, Thorough: map[string]int{"PAIR": 2}, Witness: []string{"bom", "several-imports"}, Native: true},
			{Fn: "VerifC18Specs", Quick: map[string]int{"PL": 1}, Thorough: map[string]int{"PL": 2}, Witness: []string{"specs"}, Native: true},
			{Fn: "VerifC18LongLines", Quick: map[string]int{"LENS": 4}, Thorough: map[string]int{"LENS": 4}, Witness: []string{"long-piece", "longer-than-a-read-buffer"}},
			{Fn: "VerifC18NewlineInString", Quick: map[string]int{}, Thorough: map[string]int{}, Witness: []string{"newline-in-raw-string", "newline-in-interpreted-string", "carriage-return-in-raw-string"}, Native: true},
			{Fn: "VerifC18Arbitrary", Quick: map[string]int{"N": 4}, Thorough: map[string]int{"N": 6}, Witness: []string{"ran", "syntax-error", "nul"}, Native: true},
		},
		Bounds: map[string]string{
			"quick":    "files with a line comment, block comment, blank run or newline run of 100 / 4095 / 4096 / 5000 / 9000 bytes before, between or after two imports (longer than any read buffer); valid files from 4 token skeletons (no import / single / group of two / single+group+empty group) x 5 declaration tails x optional BOM, with one separator slot at a time ranging over its full menu (blanks, semicolons, CRLF, // and /* */ comments with a symbolic body byte); all alias forms x raw/interpreted paths with <= 1 symbolic byte; arbitrary tails of <= 4 symbolic bytes after 5 prefixes, both reportSyntaxError values; an import path of two symbolic letters with a raw newline (or CR LF) before, between or after them, in an interpreted string (a syntax error) and in a raw string (valid; carriage returns are not part of the reported path, as in go/scanner), in 4 import positions",
			"thorough": "two separator slots vary simultaneously; paths with <= 2 symbolic bytes; arbitrary tails <= 6 bytes",
		},
		Assumptions: append([]string{"validity of generated files and the expected import list are cross-checked against go/parser (ImportsOnly) on every natively replayed path witness"}, commonAssumptions...),
		Outside:     []string{"more than two simultaneously varying separators", "files whose import section is longer than the skeletons", "bufio buffer refills (inputs are far below 4096 bytes)"},
	},
	{
		ID: "C02", Pkg: "testscript",
		Harnesses: []HarnessSpec{
			{Fn: "VerifC02Split", Quick: map[string]int{"N": 6}, Thorough: map[string]int{"N": 9}, Witness: []string{"parsed", "two-words", "unterminated"}, Native: true},
			{Fn: "VerifC02QuoteLaw", Quick: map[string]int{"K": 2, "W": 3}, Thorough: map[string]int{"K": 3, "W": 4}, Witness: []string{"quoted-parse"}, Native: true},
			{Fn: "VerifC02Expand", Quick: map[string]int{"H": 3, "VL": 1}, Thorough: map[string]int{"H": 3, "VL": 2}, Witness: []string{"expanded", "reassigned", "display-then-assign"}, Native: true},
		},
		Bounds: map[string]string{
			"quick":    "all lines of <= 6 bytes without '$' or newline against a reference tokenizer; all lists of <= 2 words of <= 3 arbitrary bytes (no newline) quoted and re-parsed; all histories of <= 3 assignments (via Setenv or the env builtin) to {A,B,AB,AR} with values of <= 1 arbitrary byte, six reference forms ($K, ${K}, x$K/y, ${K}B, ${K@R}, '$K'$K)",
			"thorough": "lines <= 9 bytes; <= 3 words of <= 4 bytes; <= 3 assignments of values of <= 2 bytes",
		},
		Assumptions: append([]string{"${K@R}: 'matches exactly' is reduced to the contract of regexp.QuoteMeta (every metacharacter escaped), interpreted from its SSA; the regexp engine itself is not encoded", "programs see ts.env with os/exec's documented last-entry-wins rule"}, commonAssumptions...),
		Outside:     []string{"Windows case folding of variable names", "malformed references such as ${ or $ at end of word (os.Expand's documented behaviour)", "the regexp matcher"},
	},
	{
		ID: "C05", Pkg: "cache", UsesVFS: true,
		Harnesses: []HarnessSpec{
			{Fn: "VerifC05History", Quick: map[string]int{"OPS": 3, "L": 1, "DAMAGE": 0}, Thorough: map[string]int{"OPS": 3, "L": 2, "DAMAGE": 0}, Witness: []string{"put", "getbytes-hit", "getfile-hit", "getbytes-miss"}},
			{Fn: "VerifC05HistoryDamage", Quick: map[string]int{"OPS": 2, "L": 1, "DPOS": 2}, Thorough: map[string]int{"OPS": 2, "L": 1, "DPOS": 15}, Witness: []string{"put", "damaged"}},
			{Fn: "VerifC05Repair", Quick: map[string]int{"L": 1, "DPOS": 4}, Thorough: map[string]int{"L": 2, "DPOS": 15}, Witness: []string{"repaired"}},
			{Fn: "VerifC05Entry", Quick: map[string]int{"W": 2, "STRIDE": 8, "L": 1}, Thorough: map[string]int{"W": 2, "STRIDE": 1, "L": 1}, Witness: []string{"entry-accepted", "entry-rejected", "getbytes-accepted", "getfile-accepted", "data-file-present"}},
			{Fn: "VerifC05EntryLen", Quick: map[string]int{"LEN": 1, "L": 1}, Thorough: map[string]int{"LEN": 1, "L": 2}, Witness: []string{"truncated", "extended"}},
			{Fn: "VerifC05EntryOut", Quick: map[string]int{}, Thorough: map[string]int{}, Witness: []string{"field-accepted", "field-rejected"}},
		},
		Bounds: map[string]string{
			"quick":    "histories of <= 3 operations from {PutBytes, GetBytes, GetFile} over 2 action IDs with data of <= 1 symbolic byte; histories of <= 2 operations with one damage step (delete / truncate / overwrite one byte with any value at 2 (repair: 4) representative offsets / append one byte, on any index or output file); repair after any such damage; index entries differing from a valid one in a window of 2 arbitrary bytes at every 8th offset, every truncation length and 1-2 appended bytes; all 64 bytes of the OutputID field arbitrary",
			"thorough": "data <= 2 bytes; damage at 15 representative offsets; windows at every offset",
		},
		Stubs: []string{"os.{Stat,Open,OpenFile,ReadFile,Remove,Chtimes,MkdirAll}", "(*os.File).{Read,Write,WriteString,WriteAt,Seek,Truncate,Close,Stat,WriteTo,ReadFrom}", "time.Now (concrete clock)", "crypto/sha256.{New,Sum256} -> injective pool-digest model"},
		Assumptions: append([]string{"SHA-256 is modelled as an injective function onto a fixed pool of digests: the solver decides (in)equality of hashed inputs; other bit patterns of digests are not explored", "file-system operations are atomic and behave as the vfs model documents (POSIX-like)"}, commonAssumptions...),
		Outside:     []string{"more than two action IDs / three operations", "index entries differing from a valid entry in more than 2 non-adjacent places (except the OutputID field, fully arbitrary)", "GODEBUG gocacheverify mode"},
	},
	{
		ID: "C12", Pkg: "cache", UsesVFS: true,
		Harnesses: []HarnessSpec{
			{Fn: "VerifC12FileFault", Quick: map[string]int{"L": 2}, Thorough: map[string]int{"L": 4}, Witness: []string{"crash", "fault", "fault-hit", "put-reported-error", "overwrite-same-content", "overwrite-different-content", "output-trimmed-index-kept", "after-getbytes-hit", "after-getbytes-miss", "after-getfile-hit"}},
			{Fn: "VerifC12Reader", Quick: map[string]int{"L": 2}, Thorough: map[string]int{"L": 4}, Witness: []string{"reader-fails", "seek-fails", "second-pass-shorter", "second-pass-differs", "put-reported-error", "reader-fault-and-halt"}},
			{Fn: "VerifC12PreDamaged", Quick: map[string]int{"L": 2}, Thorough: map[string]int{"L": 4}, Witness: []string{"repaired-predamaged"}},
		},
		Bounds: map[string]string{
			"quick":    "Put of <= 2 symbolic bytes over four starting states (no entry / same content / different content / same content whose output file was trimmed while the index entry stayed) plus an unrelated complete entry; one crash point after any number of Put's file operations, or one failing file operation at any index (a failing write leaves any prefix for short buffers, representative prefixes incl. every field boundary for the 175-byte index entry); source reader failing at any offset in either pass, failing Seek, shorter or different second pass; pre-damaged output files of any length <= 3 with a crash at any point",
			"thorough": "data <= 4 bytes",
		},
		Stubs: []string{"as C05"},
		Assumptions: append([]string{"a crash is modelled as: every file operation up to the crash point took full effect, none after it did (operations are atomic; a torn single write is the subject of C11)", "SHA-256 as injective pool-digest model (see C05)"}, commonAssumptions...),
		Outside:     []string{"two faults in one Put", "data larger than the 32 KiB copy buffer (several writes per copy)", "real SIGKILL of a writing process"},
	},
	{
		ID: "C13", Pkg: "cache", UsesVFS: true,
		Harnesses: []HarnessSpec{
			{Fn: "VerifC13Trim", Quick: map[string]int{"E": 1, "LK": 1, "EPOCHS": 1}, Thorough: map[string]int{"E": 1, "LK": 1, "EPOCHS": 2}, Witness: []string{"clock-past-2038", "due", "not-due", "stale-removed", "lookup-before-trim", "trim-record-missing", "trim-record-digits", "trim-record-corrupt", "trim-record-unreadable"}},
			{Fn: "VerifC13Trim", Quick: map[string]int{"E": 2, "LK": 0, "EPOCHS": 0, "SUBS": 0, "TK": 0}, Thorough: map[string]int{"E": 2, "LK": 0, "EPOCHS": 0, "SUBS": 0, "TK": 0}, Witness: []string{"due", "stale-removed"}},
			{Fn: "VerifC13Trim", Thorough: map[string]int{"E": 2, "LK": 1, "EPOCHS": 0, "SUBS": 0}, ThoroughOnly: true, Witness: []string{"due", "not-due", "stale-removed"}},
			{Fn: "VerifC13Lookup", Quick: map[string]int{"EPOCHS": 1}, Thorough: map[string]int{"EPOCHS": 2}, Witness: []string{"looked-up-within-five-days", "stale-since-lookup"}},
		},
		Bounds: map[string]string{
			"quick":    "one cache subdirectory (a1, ff or 00) with <= 1 file from an 8-name template (entry names with -a/-d suffix, trim.txt, README, x-b, -a, fuzz, a1-ab) with a symbolic modification time within +-20 days of now; last-trim record missing / unreadable / 6 corrupt forms / 10 decimal digits of which the last 6 are symbolic (+-11 days around now at second resolution), optionally blank-padded; <= 1 preceding lookup at a symbolic earlier time through the real used(); the instant of Trim chosen from {1700000000, 2200000000} (thorough: also 4400000000), i.e. before and after 2^31 and 2^32 seconds; and any two distinct files of the template in subdirectory a1 at the first epoch with no last-trim record and no lookup (a file that is not an entry does not stop the scan)",
			"thorough": "the quick bound with the third epoch (4400000000), and in addition <= 2 files in subdirectory a1 at the first epoch",
		},
		Stubs: []string{"as C05, plus syscall.Flock (always succeeds) under lockedfile.Read/Write", "(time.Time).Sub on symbolic whole-second times: modelled as delta*1e9 under the path assumption |delta| < 2^33 s, with comparisons against constants rewritten to comparisons of delta (see symx/timemodel.go)"},
		Assumptions: append([]string{"times are whole seconds within +-20 days of now (no Duration saturation)", "queries the incremental solver does not decide in 1.5 s (ParseInt overflow checks on symbolic digits) are decided by a stand-alone portfolio (z3 4.8.12, z3 5.1.0, cvc5), 120 s cap"}, commonAssumptions...),
		Outside:     []string{"more than two files per subdirectory; interplay between subdirectories (the other 255 are empty)", "last-trim records in the future: only the safety clauses are asserted", "sub-second timestamps"},
	},
	{
		ID: "C06", Pkg: "lockedfile", UsesVFS: true,
		Harnesses: []HarnessSpec{
			{Fn: "VerifC06OpenFile", Quick: map[string]int{"R": 2}, Thorough: map[string]int{"R": 8}, Witness: []string{"opened", "open-failed", "lock-failed", "write-lock", "read-lock", "truncated", "non-regular-file", "truncate-failure-ignored-for-non-regular-file"}},
			{Fn: "VerifC06API", Quick: map[string]int{}, Thorough: map[string]int{}, Witness: []string{"api", "mutex", "mutex-open-fault-reported"}},
		},
		Bounds: map[string]string{
			"quick":    "per-holder protocol: every flag word below 2^21 with a valid access mode (all other bits symbolic), file present or absent, 0..2 EINTR returns from flock followed by success or ENOLCK; all seven entry points (Open, Create, Edit, Read, Write, Transform, Mutex.Lock)",
			"thorough": "0..8 EINTR returns",
		},
		Stubs: []string{"os.OpenFile, (*os.File).{Fd,Name,Stat,Truncate,Close,Read,WriteAt,ReadFrom}", "syscall.Flock: scripted results, every call recorded with its descriptor, mode and position in the operation log"},
		Assumptions: append([]string{"assume-guarantee: Linux flock(2) grants LOCK_EX on an open file description only while no other description of the file holds a lock, LOCK_SH only while none holds LOCK_EX, and keeps the lock until LOCK_UN or the last close. The check establishes the per-holder obligations on the real code (right mode for every flag word, lock on the opened descriptor before any content access, returned File <=> lock granted and still held, failure paths close the descriptor, Close unlocks the same descriptor exactly once strictly before closing it); mutual exclusion across holders follows from these obligations and the kernel contract", "access mode 3 (O_WRONLY|O_RDWR) is not a valid access mode and is excluded"}, commonAssumptions...),
		Outside:     []string{"whether the kernel honours the flock contract; NFS; the fcntl/plan9/windows lock files", "the sync.Mutex inside lockedfile.Mutex (goroutine-level, redundant)", "the cross-holder composition itself is by the stated argument, not mechanised"},
	},
	{
		ID: "C07", Pkg: "lockedfile", UsesVFS: true,
		Harnesses: []HarnessSpec{
			{Fn: "VerifC07Sequential", Quick: map[string]int{"L": 3}, Thorough: map[string]int{"L": 8}, Witness: []string{"read", "write", "grow", "shrink"}},
			{Fn: "VerifC07NothingBeforeLock", Quick: map[string]int{"L": 3}, Thorough: map[string]int{"L": 8}, Witness: []string{"write", "create"}},
			{Fn: "VerifC07TransformFault", Quick: map[string]int{"L": 3}, Thorough: map[string]int{"L": 7}, Witness: []string{"user-fails", "write-step-fails", "truncate-fails", "close-fails"}},
			{Fn: "VerifC07ReadDuringWrite", Quick: map[string]int{"L": 3}, Thorough: map[string]int{"L": 8}, Witness: []string{"truncated", "partly-written"}},
		},
		Bounds: map[string]string{
			"quick":    "old and new contents of <= 3 symbolic bytes each (every length relation); Read under arbitrary short reads; one failure at any file operation of Transform (a failing WriteAt leaves any prefix) or in the user function; for Write, Create, Transform and OpenFile(O_TRUNC): the contents at the time the lock is requested are still the old contents; a Read issued while another holder has the file truncated or partly written (any proper prefix) returns the complete contents in place once its lock request is granted",
			"thorough": "contents <= 8 bytes (7 for the fault schedule)",
		},
		Stubs: []string{"as C06"},
		Assumptions: append([]string{"linearizability across goroutines and processes is by assume-guarantee: C06 gives exclusion of writers and sharing among readers; this check establishes that each operation, run alone under its lock, reads or publishes exactly the complete contents and that every content access lies inside the held interval (asserted in C06's API harness); the two-phase-locking composition argument is stated, not mechanised"}, commonAssumptions...),
		Outside:     []string{"two simultaneous faults (rollback is best-effort)", "durability across power loss", "a failing Close after a successful write (not a write step: the new contents are published and the error is returned)"},
	},
	{
		ID: "C15", Pkg: "txtar", UsesVFS: true,
		Harnesses: []HarnessSpec{
			{Fn: "VerifC15Write", Quick: map[string]int{"E": 1, "NL": 6}, Thorough: map[string]int{"E": 1, "NL": 9}, Witness: []string{"created", "written", "escaping-name", "dangling-symlink-in-directory"}},
			{Fn: "VerifC15WriteTwo", Quick: map[string]int{"E": 2, "NL": 3}, Thorough: map[string]int{"E": 2, "NL": 4}, Witness: []string{"created", "written", "escaping-name"}},
		},
		Bounds: map[string]string{
			"quick":    "txtar.Write of one entry whose name is any byte string of <= 6 bytes, and of two entries with names of <= 3 bytes, data of <= 1 symbolic byte, into an existing directory holding no file / a / a/b / b plus a file outside it",
			"thorough": "names <= 9 bytes (one entry), <= 4 bytes (two entries)",
		},
		Stubs: []string{"os.MkdirAll, os.OpenFile (O_CREATE|O_EXCL semantics), (*os.File).{Write,Close} on the vfs model"},
		Assumptions: append([]string{"the target directory exists and is a directory (the property quantifies over directories with pre-existing files); O_EXCL on an existing path fails", "lexical containment: no symbolic links in the model"}, commonAssumptions...),
		Outside:     []string{"the txtar-c / txtar-x directory-tree round trip (needs a directory-walk model that was not built)", "symbolic links inside the target directory", "a target directory that does not exist"},
	},
	{
		ID: "C01", Pkg: "testscript", UsesVFS: true,
		Harnesses: []HarnessSpec{
			{Fn: "VerifC01Verdict", Quick: map[string]int{"K": 2}, Thorough: map[string]int{"K": 2}, Witness: []string{"pass", "fail", "skip", "continue-on-error"}},
			{Fn: "VerifC01Verdict", Thorough: map[string]int{"K": 3, "SHAPES": 22}, ThoroughOnly: true, Witness: []string{"pass", "fail", "skip", "continue-on-error"}},
			{Fn: "VerifC04Background", Quick: map[string]int{"B": 3}, Thorough: map[string]int{"B": 4}, Witness: []string{"wait", "wait-for-named-command"}},
			{Fn: "VerifC01Exit", Pkg: "cmd/testscript", Quick: map[string]int{}, Thorough: map[string]int{}, Witness: []string{"some-script-failed", "no-script-failed", "two-scripts"}},
		},
		Bounds: map[string]string{
			"quick":    "scripts of <= 2 lines over a menu of 27 line shapes (probe, ! probe, [c] probe, [!c] probe, [c] ! probe, two condition prefixes of either polarity with optional !, stop, ! stop, skip, unknown command, [c] alone, ! alone, # phase, blank, bad condition, exists / ! exists / exists-missing, exists and ! exists with two arguments (each present or absent), a built-in condition of either polarity ([linux], [windows], [gc], [go1.9], [go1.100], [go2.1]) guarding a probe, cmp / ! cmp on two archive files with symbolic contents, mkdir, chmod with two paths, grep / ! grep / grep -count=N on a file with 0-3 matching lines); probe outcomes, the two condition values, file contents and ContinueOnError symbolic; run through the real RunT with a synchronous recording T; background commands over a process model (shared with C04: the status of a background command decides the verdict at wait, wait <name> and skip); the standalone command's own T (cmd/testscript runT) over one or two scripts of <= 2 lines from {probe, skip, stop, unknown command}: failed run reported iff some script failed",
			"thorough": "the quick bound, and in addition scripts of <= 3 lines over the first 22 shapes of the menu (the probe, condition, stop/skip, unknown-command, exists/cmp/mkdir/chmod shapes; three lines over the full menu did not fit the time budget)",
		},
		Stubs: []string{"vfs model for os/file calls, time.Now/Since (concrete clock), regexp on concrete arguments (native), flag definitions, sync (sequential), go/build.Default supplied by the engine (its initialiser needs reflection): GOOS, GOARCH, Compiler, ReleaseTags of the toolchain the check runs with", "T: synchronous recording implementation; FailNow/Skip unwind by panic (deferred functions run as with runtime.Goexit)"},
		Assumptions: append([]string{"the reference evaluator over line selectors (40 lines, in the harness) states the property: first failing line decides, stop = pass, skip = skipped unless a line already failed, [cond] false lines have no effect, ContinueOnError runs every line and still fails"}, commonAssumptions...),
		Outside:     []string{"foreground exec, kill, real processes (background commands and wait run over the process model of C04), stdout/stderr matching, grep on symbolic text (regexp runs natively on concrete text only), symlink, unix2dos, cmpenv (C16 covers cmpenv under UpdateScripts), stdin/ttyin", "parallel subtests (C04)", "the standalone command's flag parsing, stdin handling and os.Exit call (the harness mirrors the tail of mainerr: r.Run + r.failed)", "scripts longer than the bound"},
	},
	{
		ID: "C16", Pkg: "testscript", UsesVFS: true,
		Harnesses: []HarnessSpec{
			{Fn: "VerifC16Update", Quick: map[string]int{"G": 2, "A": 2, "C": 1}, Thorough: map[string]int{"G": 2, "A": 2, "C": 2}, Witness: []string{"update", "no-update", "quoted-update", "rerun", "actual-has-marker", "cmp-from-subdirectory", "duplicate-entry-name", "entry-name-with-variable", "actual-longer-than-the-entry-and-the-next-marker", "actual-with-crlf-lines", "actual-has-crlf-marker"}},
		},
		Bounds: map[string]string{
			"quick":    "script archive with two golden entries of <= 2 symbolic bytes (+newline, or empty), one actual text on stdout (<= 2 arbitrary bytes, or a text containing a marker line with a symbolic byte), one comparison line: cmp / ! cmp / cmpenv against entry 0, entry 1 or a file outside the archive; UpdateScripts symbolic; second run of the real code on the rewritten script",
			"thorough": "two comparison lines",
		},
		Stubs: []string{"as C01"},
		Assumptions: append([]string{"entry names are unique (duplicates are a documented later-wins case)"}, commonAssumptions...),
		Outside:     []string{"actual content from stderr or files (same code path: ts.ReadFile)", "more than two golden entries / comparison lines", "scripts whose golden names need expansion"},
	},
	{
		ID: "C04", Pkg: "testscript", UsesVFS: true,
		Harnesses: []HarnessSpec{
			{Fn: "VerifC04Isolation", Quick: map[string]int{"S": 2}, Thorough: map[string]int{"S": 2}, Witness: []string{"removed", "retained", "two-scripts", "fail", "skip", "pass-or-stop", "read-only-dir", "deferred-function-ends-test", "directory-with-same-stem-scripts"}},
			{Fn: "VerifC04SetupEnds", Witness: []string{"setup-succeeds", "setup-fails", "setup-skips"}},
			{Fn: "VerifC04Background", Quick: map[string]int{"B": 3}, Thorough: map[string]int{"B": 4}, Witness: []string{"ends-with-processes-running", "wait", "wait-for-named-command", "fails-with-processes-running", "skip-with-processes-running"}},
		},
		Bounds: map[string]string{
			"quick":    "one or two scripts (given as files, or two found in a directory as s.txt and s.txtar) run one after the other through the real RunT; exit kind pass / fail / skip / stop; a read-only directory with a file left in the work dir or not; host environment with GOCOVERDIR and GORACE present or absent plus unrelated variables; TestWork and WorkdirRoot on or off (all choices symbolic); a Setup that registers deferred functions and succeeds / returns an error / skips / FailNow; 1-3 background commands (each: exits by itself with success or failure, or runs until signalled; negated or not) the first one named, followed by nothing / wait / a failing line / skip / stop / wait and a failing line / wait for the named command, verbose or not",
			"thorough": "same, with up to 4 background commands",
		},
		Stubs: []string{"as C01; the vfs model enforces directory write permission on unlink so that the chmod walk of removeAll matters", "VerifC04Background: exec.Command, (*exec.Cmd).Start, (*os.Process).Signal/Kill, (*os.ProcessState).Success/String and testscript.waitOrStop over a process table (waitOrStop itself is C17)"},
		Assumptions: append([]string{"PART CLAIMED: fresh work directory = archive files, environment built from scratch (documented names, Setup additions, GOCOVERDIR/GORACE pass-through, no other host variable), deferred functions in reverse order on every exit kind, work directory and (after the last script) temp root removed unless retention was requested. process liveness over a process model: at the end of RunT every started background process has ended and been waited for. NOT claimed: non-interference of scripts running in parallel goroutines, real OS processes"}, commonAssumptions...),
		Outside:     []string{"parallel execution of subtests (t.Parallel is a no-op in the recording T: scripts run one at a time)", "real processes (background commands run over a process model; the goroutine waiting for a command runs when the script first blocks on its done channel: one schedule)", "real directory removal semantics beyond the model"},
	},
	{
		ID: "C17", Pkg: "testscript", UsesVFS: true,
		Harnesses: []HarnessSpec{
			{Fn: "VerifC17Deadline", Witness: []string{"deadline-set", "no-deadline", "grace-period-scaled", "grace-period-minimum", "timed-out", "plain-failure", "unaffected", "second-script-starts-later"}},
		},
		Bounds: map[string]string{
			"quick":    "one script, or two run one after the other (the first command taking an arbitrary time), each with one foreground exec line (negated or not) run through the real RunT / run / cmdExec / exec; Params.Deadline set or not; the distance to the deadline any int64 nanosecond count in [-2^40, 2^55] (about -18 minutes to +1.1 years); the command's result (nil / error) and whether the context has expired are symbolic",
			"thorough": "same (the space is covered symbolically)",
		},
		Stubs:       []string{"time.Until returns the symbolic distance", "context.WithTimeout returns a model context recording its timeout, whose Err is DeadlineExceeded iff the harness's 'expired' choice", "os/exec.Command builds the Cmd value, (*exec.Cmd).Start succeeds", "testscript.waitOrStop is replaced by a recorder returning the chosen result (the function itself is decided by the tsys part of this check)", "file system as C01"},
		Assumptions: append([]string{"PART CLAIMED (with the tsys part): grace period = max(100ms, 5% of the remaining time); the run context expires two grace periods before Params.Deadline; foreground commands wait on that context with kill delay = one grace period; a command error while the context has expired fails the script with the timed-out message, otherwise the usual verdict; without a deadline nothing expires. NOT claimed: wall-clock completion of RunT and its subtests, liveness of real child processes, scheduling slack"}, commonAssumptions...),
		Outside:     []string{"real time and real processes", "background commands", "the interp of several scripts sharing one context (each gets the same ctx value; refCount/cancel is not examined)"},
	},
	{
		ID: "C20", Pkg: "goproxytest", UsesVFS: true,
		Harnesses: []HarnessSpec{
			{Fn: "VerifC20Serve", Quick: map[string]int{"N": 2}, Thorough: map[string]int{"N": 5}, Witness: []string{"list-200", "list-404", "file-200", "file-404", "zip-200", "directory-layout", "another-zip-built-in-between"}},
		},
		Bounds: map[string]string{
			"quick":    "module directories holding up to 2 of 10 menu entries (three layouts: .txtar, .txt, directory; case-escaped path; /v2 path; pre-release versions ending in digits and in letters, pseudo, +incompatible and path-mismatched versions) plus an unrelated file, one symbolic content byte per stored module; one request: list / .info / .mod / .zip / unknown extension / version not stored, for each menu module or an unknown module",
			"thorough": "up to 5 stored entries",
		},
		Stubs:       []string{"net/http.NotFound and http.Error record the status", "archive/zip.NewWriter/Create/Close replaced by a recorder of (name, content) entries: the zip container encoding is not examined", "par.Cache.Do runs its function once per (cache, key) and keeps the result (sequential model of what C10 establishes)", "file system model as C05 (os.ReadDir, os.ReadFile, filepath.WalkDir through it)"},
		Assumptions: append([]string{"PART CLAIMED: module discovery from file names, routing and unescaping, list = exactly the valid non-pseudo stored versions, .info/.mod byte-identical to the stored files, zip = exactly the stored files whose names do not start with a dot under path@version/ with identical contents, 404 for everything not stored. NOT claimed: the HTTP transport, the zip encoding, commit-hash resolution (all-hex versions; needs encoding/json), responses under concurrent requests"}, commonAssumptions...),
		Outside:     []string{"concurrent requests (the caches are par.Cache: C10)", "all-hex version requests", "module paths and versions outside the menu; file contents longer than the templates"},
	},
	{
		ID: "C11", Pkg: "cache", UsesVFS: true,
		Harnesses: []HarnessSpec{
			{Fn: "VerifC11OneWriterOneReader", Quick: map[string]int{"L": 1}, Thorough: map[string]int{"L": 2}, Witness: []string{"fresh", "restore-identical", "overwrite", "restore-after-trimmed-output", "lookup-hit", "lookup-miss", "getfile-hit", "several-snapshots"}},
			{Fn: "VerifC11TwoWriters", Quick: map[string]int{"L": 2, "OBS": 0}, Thorough: map[string]int{"L": 2, "OBS": 0}, Witness: []string{"writer-b-ran", "identical-content", "different-content", "lookup-hit", "getfile-hit"}},
			{Fn: "VerifC11TwoWritersObserved", Thorough: map[string]int{"L": 2, "OBS": 1, "TORN": 0}, ThoroughOnly: true, Witness: []string{"writer-b-ran", "lookup-hit", "lookup-miss"}},
		},
		Bounds: map[string]string{
			"quick":    "one writer (PutBytes of <= 1 symbolic byte over an empty cache, over an earlier complete Put of equal or of different content, or over an entry whose output file was trimmed away) and one reader (GetBytes or GetFile of that id): every interleaving of the reader's file operations with the writer's mutations, every write of several bytes visible torn at representative offsets (any offset for short buffers, every field boundary of the index entry); the reader's i-th operation observes snapshot k_i with k_1 <= k_2 <= ... chosen by the solver among the points where the accessed path changed; two writers of the same id (identical or different content, <= 2 bytes): writer A interrupted before any of its file operations by writer B performing any number of its own operations and then standing still, A finishing, a reader looking the id up afterwards",
			"thorough": "one writer/one reader with data <= 2 bytes; two writers with a reader overlapping them at solver-chosen snapshots (data <= 2 bytes; whole writes, no torn writes: with torn writes the exploration did not finish in 2.5 hours and was cut back)",
		},
		Stubs: []string{"as C05; vfs snapshots after every mutation (torn writes included); observer view re-bound to the chosen snapshot before each operation"},
		Assumptions: append([]string{"open, truncate, stat, chtimes, unlink are atomic; a single write may be observed half done at a byte boundary; processes share only the file system; that goroutines of one process sharing a *Cache share nothing else is checked: a lookup must leave the Cache object unchanged (SameState)", "modification times are not observed by Put or by lookups (only by Trim), so the reader's Chtimes commute with the writer (the harness ignores chtimes when forming snapshots)", "SHA-256 as injective pool-digest model (see C05)"}, commonAssumptions...),
		Outside:     []string{"more than two writers; more than two context switches between the two writers (B never resumes: clauses about the state after both writers finished are asserted for one writer only)", "more than one concurrent reader (readers do not influence each other: they only call Chtimes)", "Trim racing with readers or writers"},
	},
}
