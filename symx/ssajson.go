package main

// ssajson: dump the go/ssa form of a package's functions (real code plus
// harness overlay) as JSON, for the tsys bounded-model-checking back end.

import (
	"encoding/json"
	"flag"
	"fmt"
	"go/constant"
	"go/types"
	"os"
	"sort"

	"golang.org/x/tools/go/ssa"
)

type jOperand map[string]interface{}

type jInstr struct {
	Op    string                 `json:"op"`
	Reg   string                 `json:"reg,omitempty"`
	Type  string                 `json:"type,omitempty"`
	Args  []jOperand             `json:"args,omitempty"`
	Attrs map[string]interface{} `json:"attrs,omitempty"`
	Pos   string                 `json:"pos,omitempty"`
}

type jBlock struct {
	Index  int      `json:"index"`
	Instrs []jInstr `json:"instrs"`
	Succs  []int    `json:"succs"`
	Preds  []int    `json:"preds"`
}

type jFunc struct {
	Name     string   `json:"name"`
	Params   []string `json:"params"`
	ParamTys []string `json:"param_types"`
	FreeVars []string `json:"freevars"`
	Blocks   []jBlock `json:"blocks"`
	Results  int      `json:"results"`
}

func jop(v ssa.Value) jOperand {
	switch v := v.(type) {
	case nil:
		return jOperand{"nil": true}
	case *ssa.Const:
		o := jOperand{"const": true, "type": v.Type().String()}
		if v.Value == nil {
			o["zero"] = true
		} else {
			switch v.Value.Kind() {
			case constant.Bool:
				o["bool"] = constant.BoolVal(v.Value)
			case constant.Int:
				n, _ := constant.Int64Val(v.Value)
				o["int"] = n
			case constant.String:
				o["str"] = constant.StringVal(v.Value)
			default:
				o["other"] = v.Value.String()
			}
		}
		return o
	case *ssa.Global:
		return jOperand{"global": v.String(), "type": v.Type().String()}
	case *ssa.Function:
		return jOperand{"func": v.String()}
	case *ssa.Builtin:
		return jOperand{"builtin": v.Name()}
	}
	return jOperand{"reg": v.Name(), "type": v.Type().String()}
}

func typeKind(t types.Type) string {
	switch u := t.Underlying().(type) {
	case *types.Basic:
		return u.Name()
	case *types.Pointer:
		return "ptr"
	case *types.Slice:
		return "slice"
	case *types.Map:
		return "map"
	case *types.Interface:
		return "iface"
	case *types.Struct:
		return "struct"
	case *types.Signature:
		return "func"
	case *types.Array:
		return "array"
	case *types.Tuple:
		return "tuple"
	}
	return "other"
}

func dumpFunc(fn *ssa.Function) jFunc {
	jf := jFunc{Name: fn.String(), Results: fn.Signature.Results().Len()}
	for _, p := range fn.Params {
		jf.Params = append(jf.Params, p.Name())
		jf.ParamTys = append(jf.ParamTys, p.Type().String())
	}
	for _, fv := range fn.FreeVars {
		jf.FreeVars = append(jf.FreeVars, fv.Name())
	}
	for _, b := range fn.Blocks {
		jb := jBlock{Index: b.Index}
		for _, s := range b.Succs {
			jb.Succs = append(jb.Succs, s.Index)
		}
		for _, p := range b.Preds {
			jb.Preds = append(jb.Preds, p.Index)
		}
		for _, in := range b.Instrs {
			ji := jInstr{Attrs: map[string]interface{}{}, Pos: fn.Prog.Fset.Position(in.Pos()).String()}
			if v, ok := in.(ssa.Value); ok {
				ji.Reg = v.Name()
				ji.Type = v.Type().String()
				ji.Attrs["kind"] = typeKind(v.Type())
			}
			add := func(vs ...ssa.Value) {
				for _, v := range vs {
					ji.Args = append(ji.Args, jop(v))
				}
			}
			switch in := in.(type) {
			case *ssa.DebugRef:
				continue
			case *ssa.FieldAddr:
				ji.Op = "FieldAddr"
				add(in.X)
				st := deref(in.X.Type()).Underlying().(*types.Struct)
				ji.Attrs["field"] = in.Field
				ji.Attrs["fieldname"] = st.Field(in.Field).Name()
				ji.Attrs["struct"] = deref(in.X.Type()).String()
			case *ssa.Field:
				ji.Op = "Field"
				add(in.X)
				ji.Attrs["field"] = in.Field
			case *ssa.IndexAddr:
				ji.Op = "IndexAddr"
				add(in.X, in.Index)
			case *ssa.Index:
				ji.Op = "Index"
				add(in.X, in.Index)
			case *ssa.UnOp:
				ji.Op = "UnOp"
				ji.Attrs["tok"] = in.Op.String()
				ji.Attrs["commaok"] = in.CommaOk
				add(in.X)
			case *ssa.BinOp:
				ji.Op = "BinOp"
				ji.Attrs["tok"] = in.Op.String()
				ji.Attrs["argtype"] = in.X.Type().String()
				add(in.X, in.Y)
			case *ssa.Store:
				ji.Op = "Store"
				add(in.Addr, in.Val)
			case *ssa.Alloc:
				ji.Op = "Alloc"
				ji.Attrs["heap"] = in.Heap
				ji.Attrs["elem"] = deref(in.Type()).String()
				ji.Attrs["elemkind"] = typeKind(deref(in.Type()))
				if at, ok := deref(in.Type()).Underlying().(*types.Array); ok {
					ji.Attrs["len"] = at.Len()
				}
			case *ssa.Call:
				ji.Op = "Call"
				dumpCall(&ji, &in.Call)
			case *ssa.Go:
				ji.Op = "Go"
				dumpCall(&ji, &in.Call)
			case *ssa.Defer:
				ji.Op = "Defer"
				dumpCall(&ji, &in.Call)
			case *ssa.RunDefers:
				ji.Op = "RunDefers"
			case *ssa.If:
				ji.Op = "If"
				add(in.Cond)
			case *ssa.Jump:
				ji.Op = "Jump"
			case *ssa.Return:
				ji.Op = "Return"
				add(in.Results...)
			case *ssa.Panic:
				ji.Op = "Panic"
				add(in.X)
			case *ssa.Phi:
				ji.Op = "Phi"
				add(in.Edges...)
			case *ssa.MakeInterface:
				ji.Op = "MakeInterface"
				ji.Attrs["xtype"] = in.X.Type().String()
				add(in.X)
			case *ssa.TypeAssert:
				ji.Op = "TypeAssert"
				ji.Attrs["asserted"] = in.AssertedType.String()
				ji.Attrs["commaok"] = in.CommaOk
				add(in.X)
			case *ssa.MakeMap:
				ji.Op = "MakeMap"
			case *ssa.MakeSlice:
				ji.Op = "MakeSlice"
				add(in.Len, in.Cap)
			case *ssa.MakeClosure:
				ji.Op = "MakeClosure"
				add(in.Fn)
				add(in.Bindings...)
			case *ssa.Lookup:
				ji.Op = "Lookup"
				ji.Attrs["commaok"] = in.CommaOk
				add(in.X, in.Index)
			case *ssa.MapUpdate:
				ji.Op = "MapUpdate"
				add(in.Map, in.Key, in.Value)
			case *ssa.Slice:
				ji.Op = "Slice"
				add(in.X, in.Low, in.High, in.Max)
			case *ssa.Extract:
				ji.Op = "Extract"
				ji.Attrs["index"] = in.Index
				add(in.Tuple)
			case *ssa.Convert:
				ji.Op = "Convert"
				add(in.X)
			case *ssa.ChangeType:
				ji.Op = "ChangeType"
				add(in.X)
			case *ssa.ChangeInterface:
				ji.Op = "ChangeInterface"
				add(in.X)
			case *ssa.Range:
				ji.Op = "Range"
				add(in.X)
			case *ssa.Next:
				ji.Op = "Next"
				add(in.Iter)
			case *ssa.Send:
				ji.Op = "Send"
				add(in.Chan, in.X)
			case *ssa.Select:
				ji.Op = "Select"
				ji.Attrs["blocking"] = in.Blocking
				var dirs []string
				for _, st := range in.States {
					if st.Dir == types.SendOnly {
						dirs = append(dirs, "send")
						add(st.Chan, st.Send)
					} else {
						dirs = append(dirs, "recv")
						add(st.Chan, nil)
					}
				}
				ji.Attrs["dirs"] = dirs
			case *ssa.MakeChan:
				ji.Op = "MakeChan"
				add(in.Size)
			default:
				ji.Op = fmt.Sprintf("%T", in)
			}
			jb.Instrs = append(jb.Instrs, ji)
		}
		jf.Blocks = append(jf.Blocks, jb)
	}
	return jf
}

func dumpCall(ji *jInstr, c *ssa.CallCommon) {
	if c.Method != nil {
		ji.Attrs["invoke"] = c.Method.Name()
		ji.Args = append(ji.Args, jop(c.Value))
	} else {
		ji.Args = append(ji.Args, jop(c.Value))
	}
	for _, a := range c.Args {
		ji.Args = append(ji.Args, jop(a))
	}
}

func cmdSSAJSON(args []string) int {
	fs := flag.NewFlagSet("ssajson", flag.ExitOnError)
	pkg := fs.String("pkg", "", "package dir relative to repo")
	out := fs.String("out", "", "output file")
	fs.Parse(args)
	p, err := loadProgram([]string{*pkg})
	if err != nil {
		fmt.Fprintln(os.Stderr, err)
		return 2
	}
	sp := p.pkgs[targetModule+"/"+*pkg]
	if sp == nil {
		fmt.Fprintln(os.Stderr, "package not loaded")
		return 2
	}
	var funcs []jFunc
	seen := map[*ssa.Function]bool{}
	var visit func(fn *ssa.Function)
	visit = func(fn *ssa.Function) {
		if fn == nil || seen[fn] || fn.Blocks == nil {
			return
		}
		seen[fn] = true
		funcs = append(funcs, dumpFunc(fn))
		for _, af := range fn.AnonFuncs {
			visit(af)
		}
	}
	for _, m := range sp.Members {
		switch m := m.(type) {
		case *ssa.Function:
			visit(m)
		case *ssa.Type:
			for _, T := range []types.Type{m.Type(), types.NewPointer(m.Type())} {
				ms := p.prog.MethodSets.MethodSet(T)
				for i := 0; i < ms.Len(); i++ {
					visit(p.prog.MethodValue(ms.At(i)))
				}
			}
		}
	}
	sort.Slice(funcs, func(i, j int) bool { return funcs[i].Name < funcs[j].Name })
	globals := map[string]string{}
	for _, m := range sp.Members {
		if g, ok := m.(*ssa.Global); ok {
			globals[g.String()] = deref(g.Type()).String()
		}
	}
	b, _ := json.MarshalIndent(map[string]interface{}{"package": sp.Pkg.Path(), "funcs": funcs, "globals": globals}, "", " ")
	if err := os.WriteFile(*out, b, 0o644); err != nil {
		fmt.Fprintln(os.Stderr, err)
		return 2
	}
	fmt.Printf("wrote %d functions to %s\n", len(funcs), *out)
	return 0
}
