package main

// Stand-alone portfolio: a query the incremental solver process does not
// decide within its soft timeout is written out as a self-contained
// SMT-LIB script and given to fresh z3 4.8.12, z3 5.1.0 and cvc5 processes
// in parallel (measured: the overflow checks of strconv.ParseUint's n*10+d
// chain hang in incremental mode but are decided in well under a second
// stand-alone). The first definitive answer wins; none => unknown.

import (
	"strconv"
	"bytes"
	"context"
	"fmt"
	"os"
	"os/exec"
	"strings"
	"time"
)

// scriptFor renders declarations, definitions and assertions.
func (tb *TermTable) scriptFor(asserts []*Term, values []*Term) string {
	var sb strings.Builder
	sb.WriteString("(set-option :produce-models true)\n(set-logic ALL)\n")
	defined := map[int]bool{}
	ufDecl := map[string]bool{}
	var define func(t *Term)
	define = func(t *Term) {
		if t.op == OpConst || defined[t.id] {
			return
		}
		for _, a := range t.args {
			define(a)
		}
		switch t.op {
		case OpVar:
			fmt.Fprintf(&sb, "(declare-const %s %s)\n", t.name, sortStr(t.w))
		case OpUF:
			if !ufDecl[t.name] {
				sig := tb.ufs[t.name]
				var as strings.Builder
				for _, w := range sig[:len(sig)-1] {
					as.WriteString(sortStr(w) + " ")
				}
				fmt.Fprintf(&sb, "(declare-fun %s (%s) %s)\n", t.name, as.String(), sortStr(sig[len(sig)-1]))
				ufDecl[t.name] = true
			}
			fmt.Fprintf(&sb, "(define-fun t%d () %s %s)\n", t.id, sortStr(t.w), t.body())
		default:
			fmt.Fprintf(&sb, "(define-fun t%d () %s %s)\n", t.id, sortStr(t.w), t.body())
		}
		defined[t.id] = true
	}
	for _, a := range asserts {
		define(a)
		sb.WriteString("(assert " + a.ref() + ")\n")
	}
	sb.WriteString("(check-sat)\n")
	var names []string
	for _, v := range values {
		if defined[v.id] {
			names = append(names, v.ref())
		}
	}
	if len(names) > 0 {
		sb.WriteString("(get-value (" + strings.Join(names, " ") + "))\n")
	}
	return sb.String()
}

type saResult struct {
	r     Result
	model *Model
	who   string
}

func parseStandalone(out string) (Result, *Model) {
	lines := strings.SplitN(strings.TrimSpace(out), "\n", 2)
	if len(lines) == 0 {
		return Unknown, nil
	}
	switch strings.TrimSpace(lines[0]) {
	case "unsat":
		if strings.Contains(out, "(error") && !strings.Contains(out, "model is not available") {
			return Unknown, nil
		}
		return Unsat, nil
	case "sat":
		m := &Model{vals: map[string]uint64{}}
		if len(lines) > 1 && strings.Contains(lines[1], "(error") {
			return Unknown, nil
		}
		if len(lines) > 1 {
			toks := tokenize(lines[1])
			i := 0
			if len(toks) > 0 && toks[0] == "(" {
				i = 1
				for i < len(toks) && toks[i] == "(" {
					i++
					name := toks[i]
					i++
					var val uint64
					func() {
						defer func() {
							if r := recover(); r != nil {
								i = len(toks)
							}
						}()
						val, i = parseValue(toks, i)
					}()
					if i >= len(toks) {
						return Unknown, nil
					}
					i++ // ")"
					if strings.HasPrefix(name, "t") && isDigits(name[1:]) {
						if m.uf == nil {
							m.uf = map[string]uint64{}
						}
						m.uf[name] = val
					} else {
						m.vals[name] = val
					}
				}
			}
		}
		return Sat, m
	}
	return Unknown, nil
}

// Standalone decides pc ∧ extra with the portfolio.
func (ex *Exec) Standalone(extra *Term, capSec int) (Result, *Model) {
	asserts := append([]*Term{}, ex.pc...)
	if extra != nil {
		asserts = append(asserts, extra)
	}
	var values []*Term
	values = append(values, ex.inputs...)
	values = append(values, ex.ufApps...)
	script := ex.tb.scriptFor(asserts, values)
	f, err := os.CreateTemp("", "symx-sa-*.smt2")
	if err != nil {
		return Unknown, nil
	}
	defer os.Remove(f.Name())
	f.WriteString(script)
	f.Close()
	ctx, cancel := context.WithTimeout(context.Background(), time.Duration(capSec)*time.Second)
	defer cancel()
	cmds := [][]string{
		{"z3", "-smt2", f.Name()},
		{"z3-new", "-smt2", f.Name()},
		{"cvc5", "--produce-models", "--lang=smt2", f.Name()},
	}
	ch := make(chan saResult, len(cmds))
	for _, c := range cmds {
		c := c
		go func() {
			cmd := exec.CommandContext(ctx, c[0], c[1:]...)
			var out bytes.Buffer
			cmd.Stdout = &out
			cmd.Run()
			r, m := parseStandalone(out.String())
			ch <- saResult{r, m, c[0]}
		}()
	}
	ex.standaloneQ++
	start := time.Now()
	res := saResult{r: Unknown}
	for i := 0; i < len(cmds); i++ {
		x := <-ch
		if x.r != Unknown {
			res = x
			cancel()
			break
		}
	}
	ex.standaloneT += time.Since(start)
	if res.r != Unknown {
		ex.standaloneOK++
	}
	return res.r, res.model
}

// xcheckEvery: every n-th incrementally decided query of a worker is decided
// again, stand-alone, by z3 4.8.12 and cvc5 (a different z3 generation and a
// different solver), and the answers are compared. 0 disables.
var xcheckEvery = func() int {
	n, err := strconv.Atoi(envDefault("SYMX_XCHECK", "200"))
	if err != nil || n < 0 {
		return 200
	}
	return n
}()

func (ex *Exec) crossCheck(extra *Term, got Result) {
	asserts := append([]*Term{}, ex.pc...)
	if extra != nil {
		asserts = append(asserts, extra)
	}
	script := ex.tb.scriptFor(asserts, nil)
	f, err := os.CreateTemp("", "symx-xc-*.smt2")
	if err != nil {
		return
	}
	defer os.Remove(f.Name())
	f.WriteString(script)
	f.Close()
	ctx, cancel := context.WithTimeout(context.Background(), 20*time.Second)
	defer cancel()
	ex.xcheckN++
	decided := false
	for _, c := range [][]string{{"z3", "-smt2", f.Name()}, {"cvc5", "--lang=smt2", f.Name()}} {
		cmd := exec.CommandContext(ctx, c[0], c[1:]...)
		var out bytes.Buffer
		cmd.Stdout = &out
		cmd.Run()
		r, _ := parseStandalone(out.String())
		if r == Unknown {
			continue
		}
		decided = true
		if r != got {
			ex.xcheckDisagree++
			return
		}
	}
	if decided {
		ex.xcheckAgree++
	} else {
		ex.xcheckUndecided++
	}
}
