package main

// Terms: hash-consed SMT-LIB expressions over bit-vectors and Bool, with
// constant folding and light simplification at construction. One TermTable
// per executor (not shared between workers).

import (
	"fmt"
	"math/bits"
	"strings"
)

type Op uint8

const (
	OpConst Op = iota // bit-vector constant (w>0) or bool constant (w==0)
	OpVar
	OpAdd
	OpSub
	OpMul
	OpUDiv
	OpSDiv
	OpURem
	OpSRem
	OpAnd
	OpOr
	OpXor
	OpNot // bvnot
	OpNeg
	OpShl
	OpLShr
	OpAShr
	OpExtract // c = hi<<8|lo
	OpZExt    // to width w
	OpSExt
	OpConcat // args[0] high, args[1] low
	OpIte
	OpEq
	OpULt
	OpULe
	OpSLt
	OpSLe
	OpBAnd // boolean n-ary
	OpBOr
	OpBNot
	OpUF // uninterpreted function application: name, args, result width w (0=Bool)
)

var opNames = [...]string{
	OpAdd: "bvadd", OpSub: "bvsub", OpMul: "bvmul", OpUDiv: "bvudiv", OpSDiv: "bvsdiv",
	OpURem: "bvurem", OpSRem: "bvsrem", OpAnd: "bvand", OpOr: "bvor", OpXor: "bvxor",
	OpNot: "bvnot", OpNeg: "bvneg", OpShl: "bvshl", OpLShr: "bvlshr", OpAShr: "bvashr",
	OpConcat: "concat", OpIte: "ite", OpEq: "=", OpULt: "bvult", OpULe: "bvule",
	OpSLt: "bvslt", OpSLe: "bvsle", OpBAnd: "and", OpBOr: "or", OpBNot: "not",
}

type Term struct {
	op   Op
	w    int // 0 = Bool
	c    uint64
	name string
	args []*Term
	id   int

	evalEpoch int
	evalVal   uint64

	vars     []*Term
	varsDone bool
	tt       *byteSet
}

func (t *Term) IsConst() bool { return t.op == OpConst }
func (t *Term) IsBool() bool  { return t.w == 0 }

type termKey struct {
	op         Op
	w          int
	c          uint64
	a0, a1, a2 int
	name       string
}

type TermTable struct {
	tab   map[termKey]*Term
	terms []*Term
	tt    *Term
	ff    *Term
	epoch int
	vars  map[string]*Term
	ufs   map[string][]int // name -> arg widths..., last = result width
}

func NewTermTable() *TermTable {
	tb := &TermTable{tab: map[termKey]*Term{}, vars: map[string]*Term{}, ufs: map[string][]int{}}
	tb.tt = tb.mk(OpConst, 0, 1, "", nil)
	tb.ff = tb.mk(OpConst, 0, 0, "", nil)
	return tb
}

func mask(w int) uint64 {
	if w >= 64 {
		return ^uint64(0)
	}
	return (uint64(1) << uint(w)) - 1
}

func sext(v uint64, w int) int64 {
	if w >= 64 {
		return int64(v)
	}
	sh := uint(64 - w)
	return int64(v<<sh) >> sh
}

func (tb *TermTable) mk(op Op, w int, c uint64, name string, args []*Term) *Term {
	k := termKey{op: op, w: w, c: c, name: name, a0: -1, a1: -1, a2: -1}
	switch len(args) {
	case 0:
	case 1:
		k.a0 = args[0].id
	case 2:
		k.a0, k.a1 = args[0].id, args[1].id
	case 3:
		k.a0, k.a1, k.a2 = args[0].id, args[1].id, args[2].id
	default:
		var sb strings.Builder
		sb.WriteString(name)
		for _, a := range args {
			fmt.Fprintf(&sb, ",%d", a.id)
		}
		k.name = sb.String()
	}
	if t, ok := tb.tab[k]; ok {
		return t
	}
	t := &Term{op: op, w: w, c: c, name: name, args: args, id: len(tb.terms)}
	tb.terms = append(tb.terms, t)
	tb.tab[k] = t
	return t
}

func (tb *TermTable) Const(w int, v uint64) *Term {
	if w <= 0 || w > 64 {
		panic(fmt.Sprintf("Const: bad width %d", w))
	}
	return tb.mk(OpConst, w, v&mask(w), "", nil)
}

func (tb *TermTable) Bool(b bool) *Term {
	if b {
		return tb.tt
	}
	return tb.ff
}

func (tb *TermTable) Var(name string, w int) *Term {
	if t, ok := tb.vars[name]; ok {
		if t.w != w {
			panic("Var: width clash for " + name)
		}
		return t
	}
	t := tb.mk(OpVar, w, 0, name, nil)
	tb.vars[name] = t
	return t
}

// foldBin computes a binary bit-vector op on constants.
func foldBin(op Op, w int, a, b uint64) uint64 {
	m := mask(w)
	switch op {
	case OpAdd:
		return (a + b) & m
	case OpSub:
		return (a - b) & m
	case OpMul:
		return (a * b) & m
	case OpUDiv:
		if b == 0 {
			return m
		}
		return (a / b) & m
	case OpURem:
		if b == 0 {
			return a
		}
		return (a % b) & m
	case OpSDiv:
		sa, sb := sext(a, w), sext(b, w)
		if sb == 0 {
			if sa >= 0 {
				return m
			}
			return 1
		}
		if sb == -1 {
			return uint64(-sa) & m
		}
		return uint64(sa/sb) & m
	case OpSRem:
		sa, sb := sext(a, w), sext(b, w)
		if sb == 0 {
			return a
		}
		if sb == -1 {
			return 0
		}
		return uint64(sa%sb) & m
	case OpAnd:
		return a & b
	case OpOr:
		return a | b
	case OpXor:
		return a ^ b
	case OpShl:
		if b >= uint64(w) {
			return 0
		}
		return (a << b) & m
	case OpLShr:
		if b >= uint64(w) {
			return 0
		}
		return (a >> b) & m
	case OpAShr:
		sa := sext(a, w)
		if b >= uint64(w) {
			b = uint64(w) - 1
		}
		return uint64(sa>>b) & m
	}
	panic("foldBin: bad op")
}

func foldCmp(op Op, w int, a, b uint64) bool {
	switch op {
	case OpEq:
		return a == b
	case OpULt:
		return a < b
	case OpULe:
		return a <= b
	case OpSLt:
		return sext(a, w) < sext(b, w)
	case OpSLe:
		return sext(a, w) <= sext(b, w)
	}
	panic("foldCmp")
}

func (tb *TermTable) Bin(op Op, a, b *Term) *Term {
	if a.w != b.w || a.w == 0 {
		panic(fmt.Sprintf("Bin %s: width mismatch %d vs %d", opNames[op], a.w, b.w))
	}
	w := a.w
	if a.IsConst() && b.IsConst() {
		return tb.Const(w, foldBin(op, w, a.c, b.c))
	}
	// identities
	switch op {
	case OpAdd:
		if a.IsConst() && a.c == 0 {
			return b
		}
		if b.IsConst() && b.c == 0 {
			return a
		}
		if a.IsConst() { // canonical: const on the right
			a, b = b, a
		}
		// (x + c1) + c2
		if b.IsConst() && a.op == OpAdd && a.args[1].IsConst() {
			return tb.Bin(OpAdd, a.args[0], tb.Const(w, a.args[1].c+b.c))
		}
	case OpSub:
		if b.IsConst() && b.c == 0 {
			return a
		}
		if a == b {
			return tb.Const(w, 0)
		}
		if b.IsConst() {
			return tb.Bin(OpAdd, a, tb.Const(w, -b.c))
		}
	case OpMul:
		if a.IsConst() {
			a, b = b, a
		}
		if b.IsConst() {
			if b.c == 0 {
				return b
			}
			if b.c == 1 {
				return a
			}
		}
	case OpAnd:
		if a.IsConst() {
			a, b = b, a
		}
		if b.IsConst() {
			if b.c == 0 {
				return b
			}
			if b.c == mask(w) {
				return a
			}
		}
		if a == b {
			return a
		}
	case OpOr:
		if a.IsConst() {
			a, b = b, a
		}
		if b.IsConst() {
			if b.c == 0 {
				return a
			}
			if b.c == mask(w) {
				return b
			}
		}
		if a == b {
			return a
		}
	case OpXor:
		if a.IsConst() {
			a, b = b, a
		}
		if b.IsConst() && b.c == 0 {
			return a
		}
		if a == b {
			return tb.Const(w, 0)
		}
	case OpShl, OpLShr, OpAShr:
		if b.IsConst() && b.c == 0 {
			return a
		}
		if a.IsConst() && a.c == 0 {
			return a
		}
		if b.IsConst() && b.c >= uint64(w) && op != OpAShr {
			return tb.Const(w, 0)
		}
	case OpUDiv, OpSDiv:
		if b.IsConst() && b.c == 1 {
			return a
		}
	}
	return tb.mk(op, w, 0, "", []*Term{a, b})
}

func (tb *TermTable) Un(op Op, a *Term) *Term {
	if a.w == 0 {
		panic("Un on bool")
	}
	if a.IsConst() {
		switch op {
		case OpNot:
			return tb.Const(a.w, ^a.c)
		case OpNeg:
			return tb.Const(a.w, -a.c)
		}
	}
	if a.op == op {
		return a.args[0]
	}
	return tb.mk(op, a.w, 0, "", []*Term{a})
}

func (tb *TermTable) Extract(a *Term, hi, lo int) *Term {
	if hi < lo || hi >= a.w || lo < 0 {
		panic(fmt.Sprintf("Extract[%d:%d] of width %d", hi, lo, a.w))
	}
	w := hi - lo + 1
	if w == a.w {
		return a
	}
	if a.IsConst() {
		return tb.Const(w, a.c>>uint(lo))
	}
	switch a.op {
	case OpZExt, OpSExt:
		inner := a.args[0]
		if hi < inner.w {
			return tb.Extract(inner, hi, lo)
		}
		if a.op == OpZExt && lo >= inner.w {
			return tb.Const(w, 0)
		}
	case OpConcat:
		lw := a.args[1].w
		if hi < lw {
			return tb.Extract(a.args[1], hi, lo)
		}
		if lo >= lw {
			return tb.Extract(a.args[0], hi-lw, lo-lw)
		}
	case OpExtract:
		ilo := int(a.c & 0xff)
		return tb.Extract(a.args[0], hi+ilo, lo+ilo)
	case OpIte:
		if a.args[1].IsConst() && a.args[2].IsConst() {
			return tb.Ite(a.args[0], tb.Extract(a.args[1], hi, lo), tb.Extract(a.args[2], hi, lo))
		}
	}
	return tb.mk(OpExtract, w, uint64(hi)<<8|uint64(lo), "", []*Term{a})
}

func (tb *TermTable) ZExt(a *Term, w int) *Term {
	if w == a.w {
		return a
	}
	if w < a.w {
		return tb.Extract(a, w-1, 0)
	}
	if a.IsConst() {
		return tb.Const(w, a.c)
	}
	if a.op == OpZExt {
		return tb.ZExt(a.args[0], w)
	}
	if a.op == OpIte && a.args[1].IsConst() && a.args[2].IsConst() {
		return tb.Ite(a.args[0], tb.ZExt(a.args[1], w), tb.ZExt(a.args[2], w))
	}
	return tb.mk(OpZExt, w, 0, "", []*Term{a})
}

func (tb *TermTable) SExt(a *Term, w int) *Term {
	if w == a.w {
		return a
	}
	if w < a.w {
		return tb.Extract(a, w-1, 0)
	}
	if a.IsConst() {
		return tb.Const(w, uint64(sext(a.c, a.w)))
	}
	if a.op == OpZExt {
		return tb.ZExt(a.args[0], w)
	}
	if a.op == OpSExt {
		return tb.SExt(a.args[0], w)
	}
	if a.op == OpIte && a.args[1].IsConst() && a.args[2].IsConst() {
		return tb.Ite(a.args[0], tb.SExt(a.args[1], w), tb.SExt(a.args[2], w))
	}
	return tb.mk(OpSExt, w, 0, "", []*Term{a})
}

func (tb *TermTable) Concat(hi, lo *Term) *Term {
	w := hi.w + lo.w
	if w > 64 {
		return tb.mk(OpConcat, w, 0, "", []*Term{hi, lo})
	}
	if hi.IsConst() && lo.IsConst() {
		return tb.Const(w, hi.c<<uint(lo.w)|lo.c)
	}
	if hi.IsConst() && hi.c == 0 {
		return tb.ZExt(lo, w)
	}
	return tb.mk(OpConcat, w, 0, "", []*Term{hi, lo})
}

func (tb *TermTable) Ite(c, a, b *Term) *Term {
	if c.w != 0 {
		panic("Ite: cond not bool")
	}
	if a.w != b.w {
		panic(fmt.Sprintf("Ite: width mismatch %d %d", a.w, b.w))
	}
	if c.IsConst() {
		if c.c != 0 {
			return a
		}
		return b
	}
	if a == b {
		return a
	}
	if a.w == 0 {
		// boolean ite
		if a.IsConst() && b.IsConst() {
			if a.c != 0 {
				return c
			}
			return tb.BNot(c)
		}
		if a.IsConst() {
			if a.c != 0 {
				return tb.BOr(c, b)
			}
			return tb.BAnd(tb.BNot(c), b)
		}
		if b.IsConst() {
			if b.c != 0 {
				return tb.BOr(tb.BNot(c), a)
			}
			return tb.BAnd(c, a)
		}
	}
	if c.op == OpBNot {
		return tb.Ite(c.args[0], b, a)
	}
	// ite(c, x, ite(c, y, z)) = ite(c, x, z)
	if b.op == OpIte && b.args[0] == c {
		return tb.Ite(c, a, b.args[2])
	}
	if a.op == OpIte && a.args[0] == c {
		return tb.Ite(c, a.args[1], b)
	}
	return tb.mk(OpIte, a.w, 0, "", []*Term{c, a, b})
}

func (tb *TermTable) Eq(a, b *Term) *Term {
	if a.w != b.w {
		panic(fmt.Sprintf("Eq: width mismatch %d %d", a.w, b.w))
	}
	if a == b {
		return tb.tt
	}
	if a.IsConst() && b.IsConst() {
		return tb.Bool(a.c == b.c)
	}
	if a.w == 0 {
		// boolean equality
		if a.IsConst() {
			a, b = b, a
		}
		if b.IsConst() {
			if b.c != 0 {
				return a
			}
			return tb.BNot(a)
		}
	}
	if a.IsConst() {
		a, b = b, a
	}
	if b.IsConst() {
		// ite(c, k1, k2) == k
		if a.op == OpIte && a.args[1].IsConst() && a.args[2].IsConst() {
			return tb.Ite(a.args[0], tb.Bool(a.args[1].c == b.c), tb.Bool(a.args[2].c == b.c))
		}
		if a.op == OpZExt {
			inner := a.args[0]
			if b.c > mask(inner.w) {
				return tb.ff
			}
			return tb.Eq(inner, tb.Const(inner.w, b.c))
		}
		if a.op == OpAdd && a.args[1].IsConst() {
			return tb.Eq(a.args[0], tb.Const(a.w, b.c-a.args[1].c))
		}
	}
	if a.id > b.id && !b.IsConst() {
		a, b = b, a
	}
	return tb.mk(OpEq, 0, 0, "", []*Term{a, b})
}

func (tb *TermTable) Cmp(op Op, a, b *Term) *Term {
	if op == OpEq {
		return tb.Eq(a, b)
	}
	if a.w != b.w || a.w == 0 {
		panic(fmt.Sprintf("Cmp: width mismatch %d %d", a.w, b.w))
	}
	if a.IsConst() && b.IsConst() {
		return tb.Bool(foldCmp(op, a.w, a.c, b.c))
	}
	if a == b {
		return tb.Bool(op == OpULe || op == OpSLe)
	}
	switch op {
	case OpULt:
		if b.IsConst() && b.c == 0 {
			return tb.ff
		}
		if a.IsConst() && a.c == mask(a.w) {
			return tb.ff
		}
	case OpULe:
		if a.IsConst() && a.c == 0 {
			return tb.tt
		}
		if b.IsConst() && b.c == mask(a.w) {
			return tb.tt
		}
	}
	// comparisons of zero-extended values against constants stay in the narrow width
	if a.op == OpZExt && b.IsConst() {
		inner := a.args[0]
		signedNeg := (op == OpSLt || op == OpSLe) && sext(b.c, b.w) < 0
		if signedNeg {
			return tb.ff // zext value is non-negative
		}
		if b.c > mask(inner.w) {
			return tb.tt
		}
		uop := op
		if op == OpSLt {
			uop = OpULt
		} else if op == OpSLe {
			uop = OpULe
		}
		return tb.Cmp(uop, inner, tb.Const(inner.w, b.c))
	}
	if b.op == OpZExt && a.IsConst() {
		inner := b.args[0]
		signedNeg := (op == OpSLt || op == OpSLe) && sext(a.c, a.w) < 0
		if signedNeg {
			return tb.tt
		}
		if a.c > mask(inner.w) {
			return tb.ff
		}
		uop := op
		if op == OpSLt {
			uop = OpULt
		} else if op == OpSLe {
			uop = OpULe
		}
		return tb.Cmp(uop, tb.Const(inner.w, a.c), inner)
	}
	return tb.mk(op, 0, 0, "", []*Term{a, b})
}

func (tb *TermTable) BNot(a *Term) *Term {
	if a.w != 0 {
		panic("BNot on bv")
	}
	if a.IsConst() {
		return tb.Bool(a.c == 0)
	}
	if a.op == OpBNot {
		return a.args[0]
	}
	return tb.mk(OpBNot, 0, 0, "", []*Term{a})
}

func (tb *TermTable) nary(op Op, xs []*Term) *Term {
	unit := op == OpBAnd // true for and, false for or
	var out []*Term
	seen := map[int]bool{}
	var add func(t *Term) bool
	add = func(t *Term) bool {
		if t.w != 0 {
			panic("boolean op on bv")
		}
		if t.IsConst() {
			if (t.c != 0) == unit {
				return true // neutral
			}
			return false // absorbing
		}
		if t.op == op {
			for _, a := range t.args {
				if !add(a) {
					return false
				}
			}
			return true
		}
		if seen[t.id] {
			return true
		}
		seen[t.id] = true
		out = append(out, t)
		return true
	}
	for _, x := range xs {
		if !add(x) {
			return tb.Bool(!unit)
		}
	}
	// x and not x
	for _, t := range out {
		if t.op == OpBNot && seen[t.args[0].id] {
			return tb.Bool(!unit)
		}
	}
	switch len(out) {
	case 0:
		return tb.Bool(unit)
	case 1:
		return out[0]
	}
	return tb.mk(op, 0, 0, "", out)
}

func (tb *TermTable) BAnd(xs ...*Term) *Term { return tb.nary(OpBAnd, xs) }
func (tb *TermTable) BOr(xs ...*Term) *Term  { return tb.nary(OpBOr, xs) }

func (tb *TermTable) UF(name string, w int, args []*Term) *Term {
	sig := make([]int, 0, len(args)+1)
	for _, a := range args {
		sig = append(sig, a.w)
	}
	sig = append(sig, w)
	if old, ok := tb.ufs[name]; ok {
		if fmt.Sprint(old) != fmt.Sprint(sig) {
			panic("UF signature clash: " + name)
		}
	} else {
		tb.ufs[name] = sig
	}
	return tb.mk(OpUF, w, 0, name, args)
}

// ---------- printing ----------

func sortStr(w int) string {
	if w == 0 {
		return "Bool"
	}
	return fmt.Sprintf("(_ BitVec %d)", w)
}

func constStr(w int, c uint64) string {
	if w == 0 {
		if c != 0 {
			return "true"
		}
		return "false"
	}
	if w%4 == 0 {
		return fmt.Sprintf("#x%0*x", w/4, c)
	}
	return fmt.Sprintf("#b%0*b", w, c)
}

func (t *Term) ref() string {
	switch t.op {
	case OpConst:
		return constStr(t.w, t.c)
	case OpVar:
		return t.name
	}
	return fmt.Sprintf("t%d", t.id)
}

// body renders the defining expression of a non-leaf term, referring to
// argument terms by name.
func (t *Term) body() string {
	var sb strings.Builder
	switch t.op {
	case OpExtract:
		fmt.Fprintf(&sb, "((_ extract %d %d) %s)", t.c>>8, t.c&0xff, t.args[0].ref())
	case OpZExt:
		fmt.Fprintf(&sb, "((_ zero_extend %d) %s)", t.w-t.args[0].w, t.args[0].ref())
	case OpSExt:
		fmt.Fprintf(&sb, "((_ sign_extend %d) %s)", t.w-t.args[0].w, t.args[0].ref())
	case OpUF:
		if len(t.args) == 0 {
			return t.name
		}
		sb.WriteString("(" + t.name)
		for _, a := range t.args {
			sb.WriteString(" " + a.ref())
		}
		sb.WriteString(")")
	default:
		sb.WriteString("(" + opNames[t.op])
		for _, a := range t.args {
			sb.WriteString(" " + a.ref())
		}
		sb.WriteString(")")
	}
	return sb.String()
}

// String renders a term fully inlined (debugging, small terms only).
func (t *Term) String() string {
	switch t.op {
	case OpConst, OpVar:
		return t.ref()
	}
	var sb strings.Builder
	switch t.op {
	case OpExtract:
		fmt.Fprintf(&sb, "((_ extract %d %d) %s)", t.c>>8, t.c&0xff, t.args[0])
	case OpZExt:
		fmt.Fprintf(&sb, "((_ zero_extend %d) %s)", t.w-t.args[0].w, t.args[0])
	case OpSExt:
		fmt.Fprintf(&sb, "((_ sign_extend %d) %s)", t.w-t.args[0].w, t.args[0])
	case OpUF:
		sb.WriteString("(" + t.name)
		for _, a := range t.args {
			sb.WriteString(" " + a.String())
		}
		sb.WriteString(")")
	default:
		sb.WriteString("(" + opNames[t.op])
		for _, a := range t.args {
			sb.WriteString(" " + a.String())
		}
		sb.WriteString(")")
	}
	return sb.String()
}

// ---------- evaluation under a model ----------

// Model maps variable names to values. UF applications are looked up by
// their rendered application key "name(arg,arg,...)" when present, else
// evaluated through ufFallback (a deterministic injective-looking mix) —
// the solver's own UF interpretation is fetched explicitly where needed.
type Model struct {
	vals map[string]uint64
	uf   map[string]uint64 // "t<id>" of UF application term -> value (width<=64)
}

func (tb *TermTable) Eval(t *Term, m *Model) uint64 {
	tb.epoch++
	return tb.eval(t, m)
}

func (tb *TermTable) eval(t *Term, m *Model) uint64 {
	if t.op == OpConst {
		return t.c
	}
	if t.evalEpoch == tb.epoch {
		return t.evalVal
	}
	var v uint64
	switch t.op {
	case OpVar:
		v = m.vals[t.name] & maskB(t.w)
	case OpAdd, OpSub, OpMul, OpUDiv, OpSDiv, OpURem, OpSRem, OpAnd, OpOr, OpXor, OpShl, OpLShr, OpAShr:
		v = foldBin(t.op, t.w, tb.eval(t.args[0], m), tb.eval(t.args[1], m))
	case OpNot:
		v = ^tb.eval(t.args[0], m) & mask(t.w)
	case OpNeg:
		v = -tb.eval(t.args[0], m) & mask(t.w)
	case OpExtract:
		v = (tb.eval(t.args[0], m) >> uint(t.c&0xff)) & mask(t.w)
	case OpZExt:
		v = tb.eval(t.args[0], m)
	case OpSExt:
		v = uint64(sext(tb.eval(t.args[0], m), t.args[0].w)) & mask(t.w)
	case OpConcat:
		if t.w > 64 {
			panic("eval: concat wider than 64")
		}
		v = tb.eval(t.args[0], m)<<uint(t.args[1].w) | tb.eval(t.args[1], m)
	case OpIte:
		if tb.eval(t.args[0], m) != 0 {
			v = tb.eval(t.args[1], m)
		} else {
			v = tb.eval(t.args[2], m)
		}
	case OpEq:
		if t.args[0].w > 64 {
			panic("eval: eq wider than 64")
		}
		v = b2u(tb.eval(t.args[0], m) == tb.eval(t.args[1], m))
	case OpULt, OpULe, OpSLt, OpSLe:
		v = b2u(foldCmp(t.op, t.args[0].w, tb.eval(t.args[0], m), tb.eval(t.args[1], m)))
	case OpBAnd:
		v = 1
		for _, a := range t.args {
			if tb.eval(a, m) == 0 {
				v = 0
				break
			}
		}
	case OpBOr:
		v = 0
		for _, a := range t.args {
			if tb.eval(a, m) != 0 {
				v = 1
				break
			}
		}
	case OpBNot:
		v = b2u(tb.eval(t.args[0], m) == 0)
	case OpUF:
		if m.uf != nil {
			if x, ok := m.uf[t.ref()]; ok {
				v = x
				break
			}
		}
		panic(evalUFMissing{t})
	default:
		panic("eval: bad op")
	}
	t.evalEpoch = tb.epoch
	t.evalVal = v
	return v
}

type evalUFMissing struct{ t *Term }

func maskB(w int) uint64 {
	if w == 0 {
		return 1
	}
	return mask(w)
}

func b2u(b bool) uint64 {
	if b {
		return 1
	}
	return 0
}

var _ = bits.Len64
