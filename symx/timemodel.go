package main

// time.Time arithmetic. Times built by time.Unix(sec, nsec) are plain
// structs {wall=nsec, ext=sec+unixToInternal, loc}; Add/Before/After/Unix
// are interpreted from their SSA. Only Sub needs a model: its overflow
// check divides by 1e9, which no solver here decides on symbolic operands.
// (time.Time).Sub on symbolic whole-second times returns Δsec*1e9 under the
// recorded path assumption |Δsec| < 2^33 (no Duration saturation), and the
// executor remembers that the result is Δsec scaled by 1e9, so comparisons
// of such a Duration with a constant are rewritten to comparisons of Δsec
// with the constant divided by 1e9 (exact for integers).

import (
	"go/token"
)

const nsPerSec = 1000000000

func floorDiv(a, b int64) int64 {
	q := a / b
	if (a%b != 0) && ((a < 0) != (b < 0)) {
		q--
	}
	return q
}

func ceilDiv(a, b int64) int64 {
	q := a / b
	if (a%b != 0) && ((a < 0) == (b < 0)) {
		q++
	}
	return q
}

func timeSub(ex *Exec, fr *frame, a []Value) Value {
	t, u := a[0].(Struct), a[1].(Struct)
	tw, uw := t[0].(BV), u[0].(BV)
	te, ue := t[1].(BV), u[1].(BV)
	symbolic := te.t != nil || ue.t != nil
	if !symbolic || tw.t != nil || uw.t != nil || tw.c>>63 != 0 || uw.c>>63 != 0 {
		// concrete (or monotonic / symbolic-nanosecond) times: real code
		fn := ex.prog.FuncByFullName("(time.Time).Sub")
		return ex.callSSARaw(fr, fn, a)
	}
	dn := int64(tw.c&(1<<30-1)) - int64(uw.c&(1<<30-1))
	ds := ex.tb.Bin(OpSub, ex.term(te), ex.term(ue))
	lim := ex.tb.Const(64, 1<<33)
	negLim := -(int64(1) << 33)
	nlim := ex.tb.Const(64, uint64(negLim))
	ex.Assume(ex.tb.BAnd(ex.tb.Cmp(OpSLt, ds, lim), ex.tb.Cmp(OpSLt, nlim, ds)))
	ex.timeAssumes++
	d := ex.tb.Bin(OpMul, ds, ex.tb.Const(64, nsPerSec))
	if dn != 0 {
		d = ex.tb.Bin(OpAdd, d, ex.tb.Const(64, uint64(dn)))
	} else if !d.IsConst() {
		if ex.scaled == nil {
			ex.scaled = map[*Term]*Term{}
		}
		ex.scaled[d] = ds
	}
	return ex.fromTerm(d)
}

// scaledCmp rewrites (Δsec*1e9) op const.
func (ex *Exec) scaledCmp(op token.Token, x, y BV) (Value, bool) {
	if ex.scaled == nil {
		return nil, false
	}
	flip := false
	if x.t == nil && y.t != nil {
		x, y = y, x
		flip = true
	}
	if x.t == nil || y.t != nil {
		return nil, false
	}
	s, ok := ex.scaled[x.t]
	if !ok {
		return nil, false
	}
	c := int64(y.c)
	if flip {
		switch op {
		case token.LSS:
			op = token.GTR
		case token.LEQ:
			op = token.GEQ
		case token.GTR:
			op = token.LSS
		case token.GEQ:
			op = token.LEQ
		}
	}
	k := func(v int64) *Term { return ex.tb.Const(64, uint64(v)) }
	var r *Term
	switch op {
	case token.LSS: // s*K < c  <=>  s < ceil(c/K)
		r = ex.tb.Cmp(OpSLt, s, k(ceilDiv(c, nsPerSec)))
	case token.LEQ: // s*K <= c <=>  s <= floor(c/K)
		r = ex.tb.Cmp(OpSLe, s, k(floorDiv(c, nsPerSec)))
	case token.GTR: // s*K > c  <=>  s > floor(c/K)
		r = ex.tb.Cmp(OpSLt, k(floorDiv(c, nsPerSec)), s)
	case token.GEQ: // s*K >= c <=>  s >= ceil(c/K)
		r = ex.tb.Cmp(OpSLe, k(ceilDiv(c, nsPerSec)), s)
	case token.EQL, token.NEQ:
		if c%nsPerSec != 0 {
			r = ex.tb.ff
		} else {
			r = ex.tb.Eq(s, k(c/nsPerSec))
		}
		if op == token.NEQ {
			r = ex.tb.BNot(r)
		}
	default:
		return nil, false
	}
	return ex.fromTerm(r), true
}

func init() {
	intrinsics["(time.Time).Sub"] = timeSub
}
