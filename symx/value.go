package main

// Value representation (after x/tools/go/ssa/interp, BSD licence):
//
//   integers     BV{w, c, t}   t == nil: concrete c (masked to w bits)
//   bool         bool | SBool{t}
//   float        float32, float64 (concrete only)
//   string       string | SymStr (cells of BV8; immutable)
//   pointer      *Value | *SymPtr | nil pointers are (*Value)(nil)
//   slice        []Value (Go slice: aliasing, len, cap for free)
//   array        Array
//   struct       Struct
//   interface    Iface{t, v}
//   map          *Map
//   func         *ssa.Function | *ssa.Builtin | *Closure | nil func = (*Closure)(nil)
//   tuple        Tuple
//   chan         *Chan (unsupported operations abort the path)

import (
	"bytes"
	"fmt"
	"go/types"
	"strings"

	"golang.org/x/tools/go/ssa"
)

type Value interface{}

type BV struct {
	t *Term
	c uint64
	w uint8
}

type SBool struct{ t *Term }

type SymStr []Value // each element BV (w=8)

type Tuple []Value
type Array []Value
type Struct []Value

type Iface struct {
	t types.Type
	v Value
}

type Closure struct {
	Fn  *ssa.Function
	Env []Value
}

// SymPtr is the address of cells[idx] for a symbolic idx (already known to
// be in range on this path).
type SymPtr struct {
	cells []Value
	idx   *Term // width 64
}

// Chan: channels exist only for the deferred-goroutine model (see goStmt):
// close and receive are supported, sends are not.
type Chan struct {
	id     int
	closed bool
}

type bad struct{}

func mkBV(w int, c uint64) BV { return BV{w: uint8(w), c: c & mask(w)} }

func (b BV) IsConc() bool { return b.t == nil }

func (b BV) Signed() int64 { return sext(b.c, int(b.w)) }

// ---------- type helpers ----------

func basicWidth(k types.BasicKind) (w int, signed bool, ok bool) {
	switch k {
	case types.Int, types.Int64, types.UntypedInt:
		return 64, true, true
	case types.Int8:
		return 8, true, true
	case types.Int16:
		return 16, true, true
	case types.Int32, types.UntypedRune:
		return 32, true, true
	case types.Uint, types.Uint64, types.Uintptr:
		return 64, false, true
	case types.Uint8:
		return 8, false, true
	case types.Uint16:
		return 16, false, true
	case types.Uint32:
		return 32, false, true
	}
	return 0, false, false
}

func intInfo(t types.Type) (w int, signed bool, ok bool) {
	b, isb := t.Underlying().(*types.Basic)
	if !isb {
		return 0, false, false
	}
	return basicWidth(b.Kind())
}

func isString(t types.Type) bool {
	b, ok := t.Underlying().(*types.Basic)
	return ok && b.Info()&types.IsString != 0
}

func isBool(t types.Type) bool {
	b, ok := t.Underlying().(*types.Basic)
	return ok && b.Info()&types.IsBoolean != 0
}

func deref(t types.Type) types.Type {
	if p, ok := t.Underlying().(*types.Pointer); ok {
		return p.Elem()
	}
	panic(fmt.Sprintf("deref of non-pointer %s", t))
}

// shared boxed zero values avoid one allocation per cell
var zeroBV = map[int]Value{8: BV{w: 8}, 16: BV{w: 16}, 32: BV{w: 32}, 64: BV{w: 64}}

func zero(t types.Type) Value {
	switch t := t.(type) {
	case *types.Basic:
		if t.Kind() == types.UntypedNil {
			panic("untyped nil has no zero value")
		}
		if t.Info()&types.IsUntyped != 0 {
			t = types.Default(t).(*types.Basic)
		}
		if w, _, ok := basicWidth(t.Kind()); ok {
			return zeroBV[w]
		}
		switch t.Kind() {
		case types.Bool:
			return false
		case types.Float32:
			return float32(0)
		case types.Float64:
			return float64(0)
		case types.Complex64:
			return complex64(0)
		case types.Complex128:
			return complex128(0)
		case types.String:
			return ""
		case types.UnsafePointer:
			return (*Value)(nil)
		}
		panic(fmt.Sprint("zero for unexpected basic type ", t))
	case *types.Pointer:
		return (*Value)(nil)
	case *types.Array:
		a := make(Array, t.Len())
		for i := range a {
			a[i] = zero(t.Elem())
		}
		return a
	case *types.Named:
		return zero(t.Underlying())
	case *types.Alias:
		return zero(types.Unalias(t))
	case *types.Interface:
		return Iface{}
	case *types.Slice:
		return []Value(nil)
	case *types.Struct:
		s := make(Struct, t.NumFields())
		for i := range s {
			s[i] = zero(t.Field(i).Type())
		}
		return s
	case *types.Tuple:
		if t.Len() == 1 {
			return zero(t.At(0).Type())
		}
		s := make(Tuple, t.Len())
		for i := range s {
			s[i] = zero(t.At(i).Type())
		}
		return s
	case *types.Chan:
		return (*Chan)(nil)
	case *types.Map:
		return (*Map)(nil)
	case *types.Signature:
		return (*Closure)(nil)
	}
	panic(fmt.Sprint("zero: unexpected ", t))
}

// load/store copy aggregates by value.
func load(T types.Type, addr *Value) Value {
	switch T := T.Underlying().(type) {
	case *types.Struct:
		v := (*addr).(Struct)
		a := make(Struct, len(v))
		for i := range a {
			a[i] = load(T.Field(i).Type(), &v[i])
		}
		return a
	case *types.Array:
		v := (*addr).(Array)
		a := make(Array, len(v))
		for i := range a {
			a[i] = load(T.Elem(), &v[i])
		}
		return a
	default:
		return *addr
	}
}

func store(T types.Type, addr *Value, v Value) {
	switch T := T.Underlying().(type) {
	case *types.Struct:
		lhs := (*addr).(Struct)
		rhs := v.(Struct)
		for i := range lhs {
			store(T.Field(i).Type(), &lhs[i], rhs[i])
		}
	case *types.Array:
		lhs := (*addr).(Array)
		rhs := v.(Array)
		for i := range lhs {
			store(T.Elem(), &lhs[i], rhs[i])
		}
	default:
		*addr = v
	}
}

// copyVal makes an unaliased copy of an aggregate value.
func copyVal(v Value) Value {
	switch v := v.(type) {
	case Struct:
		a := make(Struct, len(v))
		for i := range v {
			a[i] = copyVal(v[i])
		}
		return a
	case Array:
		a := make(Array, len(v))
		for i := range v {
			a[i] = copyVal(v[i])
		}
		return a
	}
	return v
}

// ---------- strings ----------

func strLen(v Value) int {
	switch s := v.(type) {
	case string:
		return len(s)
	case SymStr:
		return len(s)
	}
	panic(fmt.Sprintf("strLen of %T", v))
}

func strAt(v Value, i int) BV {
	switch s := v.(type) {
	case string:
		return BV{w: 8, c: uint64(s[i])}
	case SymStr:
		return s[i].(BV)
	}
	panic(fmt.Sprintf("strAt of %T", v))
}

func strSlice(v Value, lo, hi int) Value {
	switch s := v.(type) {
	case string:
		return s[lo:hi]
	case SymStr:
		return normStr(s[lo:hi])
	}
	panic(fmt.Sprintf("strSlice of %T", v))
}

// normStr returns a Go string when every cell is concrete.
func normStr(s SymStr) Value {
	for _, c := range s {
		if c.(BV).t != nil {
			return s
		}
	}
	b := make([]byte, len(s))
	for i, c := range s {
		b[i] = byte(c.(BV).c)
	}
	return string(b)
}

func strCells(v Value) []Value {
	switch s := v.(type) {
	case string:
		out := make([]Value, len(s))
		for i := 0; i < len(s); i++ {
			out[i] = byteVal(s[i])
		}
		return out
	case SymStr:
		return s
	}
	panic(fmt.Sprintf("strCells of %T", v))
}

var byteVals [256]Value

func init() {
	for i := range byteVals {
		byteVals[i] = BV{w: 8, c: uint64(i)}
	}
}

func byteVal(b byte) Value { return byteVals[b] }

func strConcat(a, b Value) Value {
	if x, ok := a.(string); ok {
		if y, ok := b.(string); ok {
			return x + y
		}
	}
	ca, cb := strCells(a), strCells(b)
	out := make(SymStr, 0, len(ca)+len(cb))
	out = append(out, ca...)
	out = append(out, cb...)
	return out
}

// bytesToStr converts a []byte value to an (immutable) string value.
func bytesToStr(b []Value) Value {
	out := make(SymStr, len(b))
	copy(out, b)
	return normStr(out)
}

func strToBytes(v Value) []Value {
	c := strCells(v)
	out := make([]Value, len(c))
	copy(out, c)
	return out
}

func goBytes(b []Value) ([]byte, bool) {
	out := make([]byte, len(b))
	for i, c := range b {
		bv := c.(BV)
		if bv.t != nil {
			return nil, false
		}
		out[i] = byte(bv.c)
	}
	return out, true
}

func fromGoBytes(b []byte) []Value {
	out := make([]Value, len(b))
	for i, c := range b {
		out[i] = byteVal(c)
	}
	return out
}

// ---------- printing ----------

func writeValue(buf *bytes.Buffer, v Value, depth int) {
	if depth > 6 {
		buf.WriteString("…")
		return
	}
	switch v := v.(type) {
	case nil:
		buf.WriteString("<nil>")
	case bool, float32, float64, complex64, complex128:
		fmt.Fprintf(buf, "%v", v)
	case string:
		fmt.Fprintf(buf, "%q", v)
	case BV:
		if v.t == nil {
			fmt.Fprintf(buf, "%d", v.c)
		} else {
			fmt.Fprintf(buf, "‹%s›", truncStr(v.t.String(), 60))
		}
	case SBool:
		fmt.Fprintf(buf, "‹%s›", truncStr(v.t.String(), 60))
	case SymStr:
		buf.WriteString("\"")
		for _, c := range v {
			b := c.(BV)
			if b.t == nil {
				fmt.Fprintf(buf, "%s", strings.Trim(fmt.Sprintf("%q", string(rune(b.c))), "\""))
			} else {
				buf.WriteString("?")
			}
		}
		buf.WriteString("\"")
	case *Map:
		buf.WriteString("map[")
		for i := range v.keys {
			if i > 0 {
				buf.WriteString(" ")
			}
			writeValue(buf, v.keys[i], depth+1)
			buf.WriteString(":")
			writeValue(buf, v.vals[i], depth+1)
		}
		buf.WriteString("]")
	case *Value:
		if v == nil {
			buf.WriteString("<nil>")
		} else {
			fmt.Fprintf(buf, "%p", v)
		}
	case Iface:
		if v.t == nil {
			buf.WriteString("<nil iface>")
			return
		}
		fmt.Fprintf(buf, "(%s, ", v.t)
		writeValue(buf, v.v, depth+1)
		buf.WriteString(")")
	case Struct:
		buf.WriteString("{")
		for i, e := range v {
			if i > 0 {
				buf.WriteString(" ")
			}
			writeValue(buf, e, depth+1)
		}
		buf.WriteString("}")
	case Array:
		buf.WriteString("[")
		for i, e := range v {
			if i > 0 {
				buf.WriteString(" ")
			}
			if i > 16 {
				buf.WriteString("…")
				break
			}
			writeValue(buf, e, depth+1)
		}
		buf.WriteString("]")
	case []Value:
		buf.WriteString("[")
		for i, e := range v {
			if i > 0 {
				buf.WriteString(" ")
			}
			if i > 16 {
				buf.WriteString("…")
				break
			}
			writeValue(buf, e, depth+1)
		}
		buf.WriteString("]")
	case *ssa.Function:
		buf.WriteString(v.String())
	case *ssa.Builtin:
		buf.WriteString(v.Name())
	case *Closure:
		if v == nil {
			buf.WriteString("<nil func>")
		} else {
			buf.WriteString(v.Fn.String())
		}
	case Tuple:
		buf.WriteString("(")
		for i, e := range v {
			if i > 0 {
				buf.WriteString(", ")
			}
			writeValue(buf, e, depth+1)
		}
		buf.WriteString(")")
	default:
		fmt.Fprintf(buf, "<%T>", v)
	}
}

func truncStr(s string, n int) string {
	if len(s) > n {
		return s[:n] + "…"
	}
	return s
}

func toString(v Value) string {
	var b bytes.Buffer
	writeValue(&b, v, 0)
	return b.String()
}
