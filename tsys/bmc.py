#!/opt/veriftools/pyvenv/bin/python3
"""tsys: go/ssa -> bounded transition system with a symbolic scheduler, decided by z3.

The SSA of the real par package (plus the harness overlay in
/verif/harness/par) is dumped to JSON by `symx ssajson` on every run. This
program turns the thread entry functions into guarded transitions by symbolic
execution of SSA segments (from one scheduling point to the next), unrolls the
system K steps with the scheduler choice, rand.Intn picks, Signal's choice of
waiter and the harness's free choices as solver variables, and asks z3 for
 (a) a reachable bad state, (b) a deadlock, (c) an unfinished thread after K
steps (unwinding assertion), and requires (d) a witness run to exist.
"""
import json, sys, time, itertools, os
import z3

W = int(os.environ.get("TSYS_W", "6"))  # bit width of every integer in the model (counters are asserted not to overflow)
NIL = (1 << W) - 1
PCW = 10  # width of program-counter variables (location ids)

def PC(n):
    return z3.BitVecVal(n, PCW)

def BV(n):
    return z3.BitVecVal(n, W)

class Unsupported(Exception):
    pass

class Infeasible(Exception):
    """The path contradicts a modelling invariant (a slice is never longer than its capacity bound)."""

class Model:
    def __init__(self, ssa, cfg):
        self.funcs = {f['name']: f for f in ssa['funcs']}
        self.pkg = ssa['package']
        self.cfg = cfg
        self.nthreads = cfg['threads']
        self.nprog = cfg.get('nprog', cfg['threads'])   # program goroutine slots; the rest are environment processes
        self.cells = {}      # write-once heap cells (variables captured by closures)
        self.vars = {}       # state var name -> (sort, init value term)
        self.order = []
        self.locs = {}       # loc tuple -> id
        self.loc_list = []
        self.summaries = {}  # (tid, locid) -> list of outcomes
        self.static_fields = {}
        self.consts = {}     # free symbolic constants (graph edges etc.)
        self.nchoice = 2
        self.encoded_funcs = set()
        self.instr_kinds = set()

    # ----- state variables -----
    def var(self, name, sort='bv', init=None):
        if name not in self.vars:
            if init is None:
                init = z3.BoolVal(False) if sort == 'bool' else (PC(0) if sort == 'pc' else BV(0))
            self.vars[name] = (sort, init)
            self.order.append(name)
        return name

    def tmpl(self, name):
        sort = self.vars[name][0]
        if sort == 'pc':
            return z3.BitVec('S!' + name, PCW)
        return z3.Bool('S!' + name) if sort == 'bool' else z3.BitVec('S!' + name, W)

    def const(self, name, sort='bool'):
        if name not in self.consts:
            self.consts[name] = z3.Bool(name) if sort == 'bool' else z3.BitVec(name, W)
        return self.consts[name]

    def loc_id(self, loc):
        if loc not in self.locs:
            self.locs[loc] = len(self.loc_list)
            self.loc_list.append(loc)
        return self.locs[loc]

END = ('END',)

class Frame:
    __slots__ = ('fn', 'block', 'idx', 'statics', 'retreg')
    def __init__(self, fn, block, idx, statics, retreg=None):
        self.fn, self.block, self.idx, self.statics, self.retreg = fn, block, idx, dict(statics), retreg
    def key(self):
        return (self.fn, self.block, self.idx, tuple(sorted((k, _hashable(v)) for k, v in self.statics.items())), self.retreg)
    def copy(self):
        return Frame(self.fn, self.block, self.idx, self.statics, self.retreg)

def _hashable(v):
    if isinstance(v, (list, tuple)):
        return tuple(_hashable(x) for x in v)
    if isinstance(v, dict):
        return tuple(sorted((k, _hashable(x)) for k, x in v.items()))
    return v

class Path:
    """One symbolic path through a segment."""
    def __init__(self, m, tid, frames, holding, state, guard):
        self.m, self.tid = m, tid
        self.frames = frames          # list of Frame (innermost last)
        self.holding = holding        # None or name of the mutex held (static)
        self.state = state            # dict var -> term (functional copy on write)
        self.guard = guard            # list of Bool terms (enabling condition)
        self.choice_cons = []         # constraints on this step's free choices (always satisfiable)
        self.visible_done = False
        self.choices_used = 0
        self.finished = None          # ('loc', locid) | ('end',)
        self.plain_access = None      # (kind, location name) of an unprotected plain access (race detection)
        self.env = {}                 # symbolic registers set in this segment: regname -> term
        self.vis_ops = []             # visible operations performed in this segment, in order (for the native replay)

    def fork(self):
        p = Path(self.m, self.tid, [f.copy() for f in self.frames], self.holding, dict(self.state), list(self.guard))
        p.visible_done = self.visible_done
        p.choices_used = self.choices_used
        p.plain_access = self.plain_access
        p.choice_cons = list(self.choice_cons)
        p.env = dict(self.env)
        p.vis_ops = list(self.vis_ops)
        p.choice_kinds = list(getattr(self, 'choice_kinds', []))
        return p

    # ----- state access -----
    def get(self, name):
        if name in self.state:
            return self.state[name]
        return self.m.tmpl(name)

    def set(self, name, val):
        self.state[name] = val

    def regname(self, fn, reg):
        return 'T%d.r.%s.%s' % (self.tid, fn.split('.')[-1].replace('(', '').replace(')', '').replace('*', ''), reg)

    def choice(self, kind='?'):
        i = self.choices_used
        self.choices_used += 1
        self.choice_kinds = getattr(self, 'choice_kinds', []) + [kind]
        if i >= self.m.nchoice:
            raise Unsupported('more than %d free choices in one transition' % self.m.nchoice)
        return z3.BitVec('CH!%d' % i, W)

def is_conc(v):
    return isinstance(v, int) or isinstance(v, bool)

def to_bv(v):
    if isinstance(v, bool):
        raise Unsupported('bool used as int')
    if isinstance(v, int):
        return BV(v)
    return v

def to_bool(v):
    if isinstance(v, bool):
        return z3.BoolVal(v)
    return v

def ite_sel(idx, elems, default=None):
    """elems[idx] for a bit-vector idx."""
    if is_conc(idx):
        return elems[idx]
    acc = elems[-1] if default is None else default
    for i in range(len(elems) - 1 if default is None else len(elems) - 1, -1, -1):
        acc = z3.If(idx == BV(i), elems[i], acc)
    return acc

def liveness(f):
    """live_before[block][idx]: registers whose value may be needed when execution resumes at that instruction."""
    blocks = f['blocks']
    defer_regs = set()
    for b in blocks:
        for ins in b['instrs']:
            if ins['op'] == 'Defer':
                defer_regs |= {a['reg'] for a in ins.get('args', []) if 'reg' in a}
    def uses(ins):
        if ins['op'] == 'RunDefers':
            return set(defer_regs)
        return {a['reg'] for a in ins.get('args', []) if 'reg' in a}
    live_in = [set() for _ in blocks]
    changed = True
    while changed:
        changed = False
        for b in reversed(blocks):
            out = set()
            for s in (b['succs'] or []):
                sb = blocks[s]
                pred = sb['preds'].index(b['index'])
                phidefs = set()
                for ins in sb['instrs']:
                    if ins['op'] != 'Phi':
                        break
                    phidefs.add(ins['reg'])
                    a = ins['args'][pred]
                    if 'reg' in a:
                        out.add(a['reg'])
                out |= (live_in[s] - phidefs)
            live = set(out)
            for ins in reversed(b['instrs']):
                if ins['op'] == 'Phi':
                    live.discard(ins.get('reg'))
                    continue
                live.discard(ins.get('reg'))
                live |= uses(ins)
            # phi-defined registers are live-in only through their uses (already handled)
            if live != live_in[b['index']]:
                live_in[b['index']] = live
                changed = True
    res = []
    for b in blocks:
        out = set()
        for s in (b['succs'] or []):
            sb = blocks[s]
            pred = sb['preds'].index(b['index'])
            phidefs = set()
            for ins in sb['instrs']:
                if ins['op'] != 'Phi':
                    break
                phidefs.add(ins['reg'])
                a = ins['args'][pred]
                if 'reg' in a:
                    out.add(a['reg'])
            out |= (live_in[s] - phidefs)
        lb = [None] * (len(b['instrs']) + 1)
        live = set(out)
        lb[len(b['instrs'])] = set(live)
        for i in range(len(b['instrs']) - 1, -1, -1):
            ins = b['instrs'][i]
            live.discard(ins.get('reg'))
            if ins['op'] != 'Phi':
                live |= uses(ins)
            lb[i] = set(live)
        res.append(lb)
    return res

class Seg:
    """Symbolic execution of SSA segments."""
    def __init__(self, m):
        self.m = m
        self.cfg = m.cfg
        self.live = {}

    def live_at(self, fn, block, idx):
        if fn not in self.live:
            self.live[fn] = liveness(self.m.funcs[fn])
        return self.live[fn][block][idx]

    # -- operand evaluation --
    def val(self, p, fr, a):
        if 'const' in a:
            if 'int' in a:
                return a['int']
            if 'bool' in a:
                return a['bool']
            if 'str' in a:
                return ('str', a['str'])
            if a.get('zero'):
                t = a['type']
                if t.startswith('map'):
                    return ('map', None)
                if t in ('any', 'interface{}'):
                    return NIL
                if t.startswith('*') or t.startswith('func'):
                    return ('nilptr',)
                if t.startswith('[]'):
                    return ('slice', [], 0, None)
                return 0
            raise Unsupported('const %r' % a)
        if 'global' in a:
            return ('obj', a['global'].split('.')[-1])
        if 'func' in a:
            return ('func', a['func'], {})
        if 'builtin' in a:
            return ('builtin', a['builtin'])
        if 'reg' in a:
            r = a['reg']
            if r in fr.statics:
                sv = fr.statics[r]
                if isinstance(sv, tuple) and sv and isinstance(sv[0], str) and sv[0] in ('eptrvar', 'efieldvar'):
                    return (sv[0][:-3], p.get(sv[1])) + tuple(sv[2:])
                if isinstance(sv, tuple) and sv and isinstance(sv[0], str) and sv[0] == 'slicevar':
                    # a slice header kept across a scheduling point: its length was saved, its elements
                    # are those of the field's backing array as it is now
                    origin = tuple(sv[2])
                    key = '%s.%s' % (origin[1], origin[2])
                    M = self.cfg['maxtodo']
                    elems = [p.get(self.m.var('%s.e%d' % (key, i))) for i in range(M)]
                    return ('slice', elems, p.get(sv[1]), origin)
                return sv
            name = p.regname(fr.fn, r)
            if name in p.env:
                return p.env[name]
            if name in self.m.vars:
                return p.get(name)
            raise Unsupported('read of unset register %s in %s' % (r, fr.fn))
        raise Unsupported('operand %r' % a)

    def setreg(self, p, fr, reg, v, typ=None):
        if reg is None:
            return
        if isinstance(v, (tuple, list, dict)) or is_conc(v):
            fr.statics[reg] = v
            n = p.regname(fr.fn, reg)
            return
        # symbolic scalar: kept in the path's environment; written to a
        # state variable only if it is live at the next scheduling point
        fr.statics.pop(reg, None)
        p.env[p.regname(fr.fn, reg)] = v

    # -- shared memory --
    def field_var(self, ref):
        # ref: ('field', objname, fieldname)
        return '%s.%s' % (ref[1], ref[2])

    def protected(self, p, ref):
        """Is an access to this location protected by the mutex the thread holds?"""
        if ref[0] == 'field' and ref[1] == 'vW':
            return p.holding == 'vW.mu'
        if ref[0] == 'efield':
            return p.holding == 'entry.mu'
        if ref[0] == 'elem':
            return self.protected(p, ref[1])
        return False

    def before_visible(self, p, what):
        """Returns True if the segment must be cut before this visible operation."""
        if p.visible_done:
            return True
        p.visible_done = True
        p.vis_ops.append(what)
        return False

    def load(self, p, fr, ref, typ):
        m = self.m
        if ref[0] == 'local':
            return fr_statics_local(p, ref)
        if ref[0] == 'field':
            obj, fld = ref[1], ref[2]
            key = '%s.%s' % (obj, fld)
            kind = self.cfg['fields'].get(key)
            if kind is None:
                raise Unsupported('load of unknown field ' + key)
            if kind == 'static':
                if key not in m.static_fields:
                    return ('nilptr',)
                return m.static_fields[key]
            if kind == 'int':
                return p.get(m.var(key))
            if kind == 'slice':
                M = self.cfg['maxtodo']
                elems = [p.get(m.var('%s.e%d' % (key, i))) for i in range(M)]
                return ('slice', elems, p.get(m.var(key + '.len')), ('field', obj, fld))
            if kind == 'map':
                return ('map', key)
            raise Unsupported('field kind ' + kind)
        if ref[0] == 'efield':
            ids, fld = ref[1], ref[2]
            n = self.cfg['pool']
            if fld == 'done':
                return ite_sel(ids, [p.get(m.var('E%d.done' % i)) for i in range(n)])
            if fld == 'result':
                return ite_sel(ids, [p.get(m.var('E%d.result' % i, init=BV(NIL))) for i in range(n)])
            raise Unsupported('entry field ' + fld)
        if ref[0] == 'elem':  # element of a slice loaded from a field
            base, idx = ref[1], ref[2]
            key = '%s.%s' % (base[1], base[2])
            M = self.cfg['maxtodo']
            return ite_sel(idx, [p.get(m.var('%s.e%d' % (key, i))) for i in range(M)])
        if ref[0] == 'lelem':
            return fr.statics[ref[1]][ref[2]]
        raise Unsupported('load from %r' % (ref,))

    def store(self, p, fr, ref, v):
        m = self.m
        if ref[0] == 'field':
            obj, fld = ref[1], ref[2]
            key = '%s.%s' % (obj, fld)
            kind = self.cfg['fields'].get(key)
            if kind is None:
                raise Unsupported('store to unknown field ' + key)
            if kind == 'static':
                hv = _hashable(v)
                if key in m.static_fields and _hashable(m.static_fields[key]) != hv:
                    raise Unsupported('static field %s assigned two different values' % key)
                m.static_fields[key] = v
                return
            if kind == 'int':
                p.set(m.var(key), to_bv(v))
                return
            if kind == 'slice':
                M = self.cfg['maxtodo']
                _, elems, ln, _o = v
                for i in range(M):
                    e = elems[i] if i < len(elems) else BV(0)
                    p.set(m.var('%s.e%d' % (key, i)), to_bv(e))
                p.set(m.var(key + '.len'), to_bv(ln))
                return
            if kind == 'map':
                if v[0] == 'newmap':
                    p.set(m.var(key + '.nonnil', 'bool'), z3.BoolVal(True))
                    for i in range(self.cfg['items']):
                        p.set(m.var('%s.k%d' % (key, i), 'bool'), z3.BoolVal(False))
                    return
                raise Unsupported('store of map value')
            raise Unsupported('field kind ' + kind)
        if ref[0] == 'efield':
            ids, fld = ref[1], ref[2]
            n = self.cfg['pool']
            for i in range(n):
                name = m.var('E%d.%s' % (i, fld), init=BV(NIL) if fld == 'result' else None)
                hit = (ids == BV(i)) if not is_conc(ids) else z3.BoolVal(ids == i)
                p.set(name, z3.If(hit, to_bv(v), p.get(name)))
            return
        if ref[0] == 'elem':
            base, idx = ref[1], ref[2]
            key = '%s.%s' % (base[1], base[2])
            M = self.cfg['maxtodo']
            for i in range(M):
                name = m.var('%s.e%d' % (key, i))
                hit = (to_bv(idx) == BV(i))
                p.set(name, z3.If(hit, to_bv(v), p.get(name)))
            return
        if ref[0] == 'lelem':
            arr = list(fr.statics[ref[1]])
            arr[ref[2]] = v
            fr.statics[ref[1]] = arr
            return
        raise Unsupported('store to %r' % (ref,))

    # -- errors recorded in the state --
    def flag(self, p, name, cond=True):
        n = self.m.var('err.' + name, 'bool')
        c = to_bool(cond)
        p.set(n, z3.Or(p.get(n), c))

    # -- the interpreter --
    def run_segment(self, tid, loc):
        """All paths from loc to the next scheduling point."""
        frames_key, holding = loc
        frames = [Frame(k[0], k[1], k[2], dict((a, _unhash(b)) for a, b in k[3]), k[4]) for k in frames_key]
        start = Path(self.m, tid, frames, holding, {}, [])
        work = [start]
        done = []
        steps = 0
        while work:
            p = work.pop()
            while p.finished is None:
                steps += 1
                if steps > 20000:
                    raise Unsupported('segment does not reach a scheduling point (loop without yield?) at %r' % (loc,))
                try:
                    forks = self.step(p)
                except Infeasible:
                    p = None
                    break
                if forks:
                    work.extend(forks)
            if p is not None:
                done.append(p)
        return done

    def cut(self, p):
        # registers holding symbolic aggregates do not survive a scheduling
        # point: entry pointers are moved into state variables, anything
        # else is dropped (a later read is reported as unsupported)
        for depth, f in enumerate(p.frames):
            inner = depth == len(p.frames) - 1
            live = self.live_at(f.fn, f.block, f.idx if inner else f.idx + 1)
            for r in live:
                rn = p.regname(f.fn, r)
                if rn in p.env:
                    val = p.env[rn]
                    self.m.var(rn, 'bool' if z3.is_bool(val) else 'bv')
                    p.set(rn, val)
            for r, val in list(f.statics.items()):
                if '!' in r:
                    continue  # bookkeeping entries (local arrays, resume markers)
                if r not in live:
                    del f.statics[r]
                    continue
                if not has_term(val):
                    continue
                if isinstance(val, tuple) and isinstance(val[0], str) and val[0] in ('eptr', 'efield'):
                    name = self.m.var(p.regname(f.fn, r) + '.id')
                    p.set(name, to_bv(val[1]))
                    f.statics[r] = (val[0] + 'var', name) + tuple(val[2:])
                elif isinstance(val, tuple) and len(val) == 4 and isinstance(val[0], str) and val[0] == 'slice' and val[3] is not None:
                    name = self.m.var(p.regname(f.fn, r) + '.len')
                    p.set(name, to_bv(val[2]))
                    f.statics[r] = ('slicevar', name, tuple(val[3]))
                else:
                    del f.statics[r]
        key = (tuple(f.key() for f in p.frames), p.holding)
        p.finished = ('loc', self.m.loc_id(key))

    def step(self, p):
        fr = p.frames[-1]
        f = self.m.funcs[fr.fn]
        self.m.encoded_funcs.add(fr.fn)
        blk = f['blocks'][fr.block]
        ins = blk['instrs'][fr.idx]
        op = ins['op']
        self.m.instr_kinds.add(op)
        A = ins.get('args', [])
        at = ins.get('attrs', {})
        reg = ins.get('reg')
        v = lambda i: self.val(p, fr, A[i])
        def nxt():
            fr.idx += 1

        if op == 'FieldAddr':
            x = v(0)
            if x[0] == 'obj':
                self.setreg(p, fr, reg, ('field', x[1], at['fieldname']))
            elif x[0] == 'field':   # nested struct field: &w.wait.L
                self.setreg(p, fr, reg, ('field', x[1], x[2] + '.' + at['fieldname']))
            elif x[0] == 'eptr':
                self.setreg(p, fr, reg, ('efield', x[1], at['fieldname']))
            elif x[0] in ('cmdptr', 'timer'):
                self.setreg(p, fr, reg, ('envfield', x[0], at['fieldname']))
            else:
                raise Unsupported('FieldAddr on %r' % (x,))
            nxt(); return
        if op == 'Alloc':
            if at.get('elemkind') == 'array':
                name = 'L!' + reg
                fr.statics[name] = [NIL] * int(at['len'])
                self.setreg(p, fr, reg, ('larr', name))
            elif at.get('elem', '').endswith('cacheEntry'):
                # one pool element per thread
                eid = p.tid
                m = self.m
                used = m.var('E%d.used' % eid, 'bool')
                self.flag(p, 'entry-pool-exhausted', p.get(used))
                p.set(used, z3.BoolVal(True))
                p.set(m.var('E%d.done' % eid), BV(0))
                p.set(m.var('E%d.result' % eid, init=BV(NIL)), BV(NIL))
                p.set(m.var('E%d.mu' % eid), BV(0))
                self.setreg(p, fr, reg, ('eptr', eid))
            elif self.cfg.get('cells') or at.get('elemkind') in ('iface', 'int', 'int64', 'uint32', 'bool'):
                # a local variable held in memory (captured by a closure, or a named result):
                # aggregates are write-once and static, scalars live in a per-goroutine state variable
                self.setreg(p, fr, reg, ('cell', 'T%d.%s.%s' % (p.tid, fr.fn.split('.')[-1], reg) if not self.cfg.get('cells') else '%s.%s' % (fr.fn.split('.')[-1], reg)))
            else:
                raise Unsupported('Alloc of %s' % at.get('elem'))
            nxt(); return
        if op == 'IndexAddr':
            x, i = v(0), v(1)
            if x[0] == 'larr':
                self.setreg(p, fr, reg, ('lelem', x[1], i))
            elif x[0] == 'slice':
                if x[3] is None:
                    raise Unsupported('IndexAddr on a slice without origin')
                if is_conc(i) and i >= self.cfg['maxtodo']:
                    # beyond the capacity bound: only reachable with len > bound, which the
                    # todo-capacity-exceeded flag reports where it would arise
                    raise Infeasible()
                # bounds check
                self.flag(p, 'index-out-of-range', z3.Not(z3.ULT(to_bv(i), to_bv(x[2]))))
                self.setreg(p, fr, reg, ('elem', x[3], i))
            else:
                raise Unsupported('IndexAddr on %r' % (x,))
            nxt(); return
        if op == 'UnOp':
            tok = at['tok']
            x = v(0)
            if tok == '<-':
                return self.recv(p, fr, x, reg, at.get('commaok'))
            if tok == '*' and isinstance(x, tuple) and x and x[0] in ('cell', 'envfield', 'obj'):
                if x[0] == 'cell':
                    if x[1] in self.m.cells:
                        self.setreg(p, fr, reg, self.m.cells[x[1]])
                    elif ('cell.' + x[1]) in self.m.vars:
                        self.setreg(p, fr, reg, p.get('cell.' + x[1]))
                    else:
                        raise Unsupported('read of unset cell ' + x[1])
                elif x[0] == 'envfield':
                    val = {('cmdptr', 'Process'): ('procptr',), ('timer', 'C'): ('chan', 'timerC')}.get((x[1], x[2]))
                    if val is None:
                        raise Unsupported('load of %r' % (x,))
                    self.setreg(p, fr, reg, val)
                else:
                    g = self.cfg.get('globals', {})
                    if x[1] not in g:
                        raise Unsupported('load of global ' + x[1])
                    self.setreg(p, fr, reg, g[x[1]])
                nxt(); return
            if tok == '*':
                if isinstance(x, tuple) and isinstance(x[0], str) and x[0] in ('field', 'efield', 'elem') and (not self.protected(p, x) or self.unlocked_readers(x)) and self.is_shared_plain(x):
                    if self.before_visible(p, 'load'):
                        self.cut(p); return
                    p.plain_access = ('read', self.locname(x))
                self.setreg(p, fr, reg, self.load(p, fr, x, ins.get('type')))
            elif tok == '!':
                self.setreg(p, fr, reg, (not x) if is_conc(x) else z3.Not(x))
            elif tok == '-':
                self.setreg(p, fr, reg, (-x) if is_conc(x) else -x)
            else:
                raise Unsupported('UnOp ' + tok)
            nxt(); return
        if op == 'Store':
            ref, val = v(0), v(1)
            if isinstance(ref, tuple) and ref and ref[0] == 'cell' and not isinstance(val, (tuple, list)) and not self.cfg.get('cells'):
                init = BV(NIL) if ins['args'][1].get('type') in ('any', 'interface{}') else None
                p.set(self.m.var('cell.' + ref[1], init=init), to_bv(val))
                nxt(); return
            if isinstance(ref, tuple) and ref and ref[0] == 'cell':
                if ref[1] in self.m.cells and _hashable(self.m.cells[ref[1]]) != _hashable(val) and not (z3.is_expr(val) and z3.is_expr(self.m.cells[ref[1]]) and val.eq(self.m.cells[ref[1]])):
                    raise Unsupported('cell %s assigned two different values' % ref[1])
                self.m.cells[ref[1]] = val
                nxt(); return
            if isinstance(ref, tuple) and isinstance(ref[0], str) and ref[0] in ('field', 'efield', 'elem') and (not self.protected(p, ref) or self.unlocked_readers(ref)) and self.is_shared_plain(ref):
                if self.before_visible(p, 'store'):
                    self.cut(p); return
                p.plain_access = ('write', self.locname(ref))
            self.store(p, fr, ref, val)
            nxt(); return
        if op == 'BinOp':
            x, y = v(0), v(1)
            if isinstance(x, tuple) and x[0] == 'map' or isinstance(y, tuple) and y[0] == 'map':
                mp = x if x[1] is not None else y
                nonnil = p.get(self.m.var(mp[1] + '.nonnil', 'bool'))
                res = z3.Not(nonnil) if at['tok'] == '==' else nonnil
                self.setreg(p, fr, reg, res)
            else:
                self.setreg(p, fr, reg, self.binop(at['tok'], x, y))
            nxt(); return
        if op == 'MakeInterface':
            x = v(0)
            self.setreg(p, fr, reg, x)   # any values are carried as their payload
            nxt(); return
        if op == 'TypeAssert':
            x = v(0)
            if at.get('commaok'):
                raise Unsupported('comma-ok type assertion')
            if at['asserted'].endswith('cacheEntry'):
                # payload is an entry id
                if isinstance(x, tuple) and x[0] == 'eptr':
                    self.setreg(p, fr, reg, x)
                else:
                    self.setreg(p, fr, reg, ('eptr', x))
            else:
                self.setreg(p, fr, reg, x)
            nxt(); return
        if op == 'MakeMap':
            self.setreg(p, fr, reg, ('newmap',))
            nxt(); return
        if op == 'MakeChan':
            if not (is_conc(v(0)) and v(0) == 0):
                raise Unsupported('buffered channel')
            self.setreg(p, fr, reg, ('chan', 'ch.%s.%s' % (fr.fn.split('.')[-1], reg)))
            nxt(); return
        if op == 'MakeClosure':
            fnv = v(0)
            names = self.m.funcs[fnv[1]].get('freevars') or []
            binds = {}
            for i, nme in enumerate(names):
                b = v(1 + i)
                if not isinstance(b, tuple) or has_term(b):
                    raise Unsupported('closure binding %r' % (b,))
                binds[nme] = b
            self.setreg(p, fr, reg, ('func', fnv[1], binds))
            nxt(); return
        if op == 'Send':
            return self.send(p, fr, v(0), v(1))
        if op == 'Select':
            return self.select(p, fr, ins, A, at, reg)
        if op == 'Lookup':
            mp, k = v(0), v(1)
            if mp[0] != 'map' or mp[1] is None:
                raise Unsupported('lookup in %r' % (mp,))
            n = self.cfg['items']
            elems = [p.get(self.m.var('%s.k%d' % (mp[1], i), 'bool')) for i in range(n)]
            self.flag(p, 'item-out-of-domain', z3.Not(z3.ULT(to_bv(k), BV(n))))
            self.setreg(p, fr, reg, ite_sel(k, elems))
            nxt(); return
        if op == 'MapUpdate':
            mp, k, val = v(0), v(1), v(2)
            n = self.cfg['items']
            self.flag(p, 'assignment-to-nil-map', z3.Not(p.get(self.m.var(mp[1] + '.nonnil', 'bool'))))
            for i in range(n):
                name = self.m.var('%s.k%d' % (mp[1], i), 'bool')
                p.set(name, z3.If(to_bv(k) == BV(i), to_bool(val), p.get(name)))
            nxt(); return
        if op == 'Slice':
            x = v(0)
            lo, hi = A[1], A[2]
            if x[0] == 'larr':
                arr = fr.statics[x[1]]
                self.setreg(p, fr, reg, ('slice', list(arr), len(arr), None))
            elif x[0] == 'slice':
                if 'nil' not in lo:
                    raise Unsupported('slice with low bound')
                h = x[2] if 'nil' in hi else self.val(p, fr, hi)
                self.flag(p, 'slice-bounds', z3.Not(z3.ULE(to_bv(h), to_bv(x[2]))))
                self.setreg(p, fr, reg, ('slice', x[1], h, x[3]))
            else:
                raise Unsupported('Slice of %r' % (x,))
            nxt(); return
        if op == 'Extract':
            t = v(0)
            self.setreg(p, fr, reg, t[at['index']])
            nxt(); return
        if op == 'Phi':
            raise Unsupported('phi reached in straight-line execution')
        if op == 'Jump':
            self.jump(p, fr, blk['succs'][0]); return
        if op == 'If':
            c = v(0)
            if is_conc(c):
                self.jump(p, fr, blk['succs'][0 if c else 1]); return
            c = z3.simplify(c)
            if z3.is_true(c):
                self.jump(p, fr, blk['succs'][0]); return
            if z3.is_false(c):
                self.jump(p, fr, blk['succs'][1]); return
            q = p.fork()
            p.guard.append(c)
            self.jump(p, fr, blk['succs'][0])
            q.guard.append(z3.Not(c))
            self.jump(q, q.frames[-1], blk['succs'][1])
            return [q]
        if op == 'Panic':
            self.flag(p, 'panic')
            p.finished = ('end',)
            return
        if op == 'Return':
            rv = [self.val(p, fr, a) for a in A]
            p.frames.pop()
            if not p.frames:
                p.finished = ('end',)
                return
            caller = p.frames[-1]
            if fr.retreg is not None:
                if len(rv) == 1:
                    self.setreg(p, caller, fr.retreg, rv[0])
                elif len(rv) > 1:
                    self.setreg(p, caller, fr.retreg, tuple(rv))
            caller.idx += 1
            return
        if op == 'Call':
            return self.call(p, fr, ins, A, at, reg)
        if op == 'Defer':
            if 'invoke' in at:
                raise Unsupported('deferred interface method call')
            callee = self.val(p, fr, A[0])
            if callee[0] != 'func' or INTRINSICS.get(callee[1]) is None:
                raise Unsupported('defer of %r' % (callee,))
            # arguments are kept as operands and evaluated when the deferred call runs (the registers stay live)
            ops = tuple(('reg', a['reg']) if 'reg' in a else ('val', _hashable(self.val(p, fr, a))) for a in A[1:])
            if any(o[0] == 'val' and has_term(o[1]) for o in ops):
                raise Unsupported('defer with a symbolic constant argument')
            fr.statics['D!defers'] = tuple(fr.statics.get('D!defers', ())) + ((callee[1], ops),)
            nxt(); return
        if op == 'RunDefers':
            ds = tuple(fr.statics.get('D!defers', ()))
            if not ds:
                nxt(); return
            name, ops = ds[-1]
            dargs = [self.val(p, fr, {'reg': o[1]}) if o[0] == 'reg' else o[1] for o in ops]
            fr.statics['D!defers'] = ds[:-1]
            idx = fr.idx
            INTRINSICS[name](self, p, fr, dargs, None)
            if p.finished is None:
                fr.idx = idx   # stay on RunDefers until the list is empty
            return
        if op == 'Go':
            callee = self.val(p, fr, A[0])
            args = [self.val(p, fr, a) for a in A[1:]]
            self.spawn(p, callee, args)
            # starting a goroutine is visible to the scheduler: a blocking operation that
            # follows must not delay it, so the segment ends with the spawn
            p.visible_done = True
            nxt(); return
        raise Unsupported('instruction %s in %s' % (op, fr.fn))

    def unlocked_readers(self, ref):
        """Locations that some code path accesses without the mutex: the mutex
        does not order those accesses, so every access is its own transition
        and takes part in the data-race check (cacheEntry.result)."""
        return ref[0] == 'efield' and ref[2] == 'result'

    def is_shared_plain(self, ref):
        if ref[0] == 'field':
            key = '%s.%s' % (ref[1], ref[2])
            return self.cfg['fields'].get(key) != 'static' or True
        return True

    def locname(self, ref):
        if ref[0] == 'field':
            return '%s.%s' % (ref[1], ref[2])
        if ref[0] == 'efield':
            return ('entry', ref[1], ref[2])
        if ref[0] == 'elem':
            return '%s.%s' % (ref[1][1], ref[1][2])
        return str(ref)

    def jump(self, p, fr, target):
        f = self.m.funcs[fr.fn]
        src = fr.block
        blk = f['blocks'][target]
        pred = blk['preds'].index(src)
        # parallel phi assignment
        vals = []
        i = 0
        while i < len(blk['instrs']) and blk['instrs'][i]['op'] == 'Phi':
            ins = blk['instrs'][i]
            vals.append((ins['reg'], self.val(p, fr, ins['args'][pred])))
            i += 1
        for r, x in vals:
            self.setreg(p, fr, r, x)
        fr.block, fr.idx = target, i

    def binop(self, tok, x, y):
        if is_conc(x) and is_conc(y):
            return {'+': lambda: x + y, '-': lambda: x - y, '*': lambda: x * y, '<': lambda: x < y, '<=': lambda: x <= y,
                    '>': lambda: x > y, '>=': lambda: x >= y, '==': lambda: x == y, '!=': lambda: x != y}[tok]()
        if isinstance(x, tuple) and isinstance(y, tuple) and tok in ('==', '!=') and not has_term(x) and not has_term(y) and x[0] != 'map' and y[0] != 'map':
            return (x == y) if tok == '==' else (x != y)
        if isinstance(x, tuple) or isinstance(y, tuple):
            # comparisons of maps / pointers with nil
            if tok in ('==', '!='):
                if x[0] == 'map':
                    if x[1] is None:
                        raise Unsupported('nil map compare')
                    nonnil = z3.Bool('S!' + self.m.var(x[1] + '.nonnil', 'bool'))
                    raise Unsupported('map compare needs path state')
            raise Unsupported('binop %s on %r %r' % (tok, x, y))
        if isinstance(x, bool) or isinstance(y, bool) or z3.is_bool(x) or z3.is_bool(y):
            a, b = to_bool(x), to_bool(y)
            if tok == '==':
                return a == b
            if tok == '!=':
                return a != b
            raise Unsupported('bool op ' + tok)
        a, b = to_bv(x), to_bv(y)
        if tok == '+': return a + b
        if tok == '-': return a - b
        if tok == '*': return a * b
        if tok == '<': return a < b       # signed, as Go's int
        if tok == '<=': return a <= b
        if tok == '>': return a > b
        if tok == '>=': return a >= b
        if tok == '==': return a == b
        if tok == '!=': return a != b
        raise Unsupported('binop ' + tok)

    # ----- calls -----
    def call(self, p, fr, ins, A, at, reg):
        if 'invoke' in at:
            h = INTRINSICS.get('invoke:' + at['invoke'])
            if h is None:
                raise Unsupported('interface method call ' + at['invoke'])
            return h(self, p, fr, [self.val(p, fr, a) for a in A], reg)
        callee = self.val(p, fr, A[0])
        args = [self.val(p, fr, a) for a in A[1:]]
        if callee[0] == 'builtin':
            return self.builtin(p, fr, callee[1], args, reg)
        if callee[0] != 'func':
            raise Unsupported('call of %r' % (callee,))
        name = callee[1]
        short = name.split('.')[-1] if not name.startswith('(') else name
        h = INTRINSICS.get(name) or INTRINSICS.get(short)
        if h is not None:
            return h(self, p, fr, args, reg)
        if name not in self.m.funcs:
            raise Unsupported('call to function outside the encoded set: ' + name)
        fn = self.m.funcs[name]
        nf = Frame(name, 0, 0, callee[2] if len(callee) > 2 else {}, reg)
        p.frames.append(nf)
        for pn, a in zip(fn['params'] or [], args):
            self.setreg(p, nf, pn, a)
        return

    def builtin(self, p, fr, name, args, reg):
        if name == 'len':
            x = args[0]
            if x[0] == 'slice':
                self.setreg(p, fr, reg, x[2])
            else:
                raise Unsupported('len of %r' % (x,))
            fr.idx += 1
            return
        if name == 'append':
            s, t = args
            M = self.cfg['maxtodo']
            sl, tl = to_bv(s[2]), to_bv(t[2])
            self.flag(p, 'todo-capacity-exceeded', z3.UGT(sl + tl, BV(M)))
            elems = []
            for i in range(M):
                old = to_bv(s[1][i]) if i < len(s[1]) else BV(0)
                # element i comes from t when i >= len(s)
                cand = old
                for j in range(len(t[1])):
                    cand = z3.If(z3.And(sl + BV(j) == BV(i), z3.ULT(BV(j), tl)), to_bv(t[1][j]), cand)
                elems.append(cand)
            self.setreg(p, fr, reg, ('slice', elems, sl + tl, None))
            fr.idx += 1
            return
        if name in ('min', 'max'):
            acc = to_bv(args[0])
            for a in args[1:]:
                b = to_bv(a)
                acc = z3.If(b < acc, b, acc) if name == 'min' else z3.If(b > acc, b, acc)
            self.setreg(p, fr, reg, acc)
            fr.idx += 1
            return
        raise Unsupported('builtin ' + name)

    # ----- channels (unbuffered; one receiver at a time) -----
    # errc-like channels: <ch>.rwait (a receiver is parked), <ch>.full (a value
    # was handed over and not yet taken), <ch>.val. A send completes only
    # while a receiver is parked (rendezvous); the receiver takes the value in
    # a later transition of its own. Environment channels (ctx.Done(),
    # timer.C) are receive-only and ready once the environment fired them.
    def chan_send_ready(self, p, ch):
        m = self.m
        return z3.And(p.get(m.var(ch[1] + '.rwait', 'bool')), z3.Not(p.get(m.var(ch[1] + '.full', 'bool'))))

    def chan_do_send(self, p, ch, val):
        m = self.m
        p.set(m.var(ch[1] + '.full', 'bool'), z3.BoolVal(True))
        p.set(m.var(ch[1] + '.val'), to_bv(val))

    def chan_recv_ready(self, p, ch):
        m = self.m
        if ch[1] == 'ctxdone':
            return p.get(m.var('ctx.done', 'bool'))
        if ch[1] == 'timerC':
            return z3.And(p.get(m.var('timer.fired', 'bool')), z3.Not(p.get(m.var('timer.taken', 'bool'))))
        if ch[1] == 'childdone':
            return child_done(self, p)
        if ch[1] == 'never':
            return z3.BoolVal(False)
        raise Unsupported('receive in select from a program channel')

    def chan_do_recv(self, p, ch):
        if ch[1] == 'timerC':
            p.set(self.m.var('timer.taken', 'bool'), z3.BoolVal(True))

    def send(self, p, fr, ch, val):
        if not (isinstance(ch, tuple) and ch[0] == 'chan') or ch[1] in ('ctxdone', 'timerC', 'childdone', 'never'):
            raise Unsupported('send on %r' % (ch,))
        if self.before_visible(p, 'send'):
            self.cut(p); return
        p.guard.append(self.chan_send_ready(p, ch))
        self.chan_do_send(p, ch, val)
        fr.idx += 1

    def recv(self, p, fr, ch, reg, commaok):
        if commaok:
            raise Unsupported('comma-ok receive')
        if not (isinstance(ch, tuple) and ch[0] == 'chan'):
            raise Unsupported('receive from %r' % (ch,))
        m = self.m
        if ch[1] in ('ctxdone', 'timerC', 'childdone', 'never'):
            if self.before_visible(p, 'recv'):
                self.cut(p); return
            p.guard.append(self.chan_recv_ready(p, ch))
            self.chan_do_recv(p, ch)
            self.setreg(p, fr, reg, 0)
            fr.idx += 1
            return
        rwait = m.var(ch[1] + '.rwait', 'bool')
        full = m.var(ch[1] + '.full', 'bool')
        if fr.statics.get('R!resuming'):
            fr.statics.pop('R!resuming')
            if self.before_visible(p, 'recv-complete'):
                fr.statics['R!resuming'] = True
                self.cut(p); return
            p.guard.append(p.get(full))
            self.setreg(p, fr, reg, p.get(m.var(ch[1] + '.val')))
            p.set(full, z3.BoolVal(False))
            p.set(rwait, z3.BoolVal(False))
            fr.idx += 1
            return
        if self.before_visible(p, 'recv-park'):
            self.cut(p); return
        self.flag(p, 'two-receivers-on-one-channel', p.get(rwait))
        p.set(rwait, z3.BoolVal(True))
        fr.statics['R!resuming'] = True
        self.cut(p)

    def select(self, p, fr, ins, A, at, reg):
        if not at.get('blocking'):
            raise Unsupported('non-blocking select')
        dirs = at['dirs']
        if len(dirs) != 2:
            raise Unsupported('select with %d cases' % len(dirs))
        if self.before_visible(p, 'select'):
            self.cut(p); return
        cases = []
        for i, d in enumerate(dirs):
            ch = self.val(p, fr, A[2 * i])
            if not (isinstance(ch, tuple) and ch[0] == 'chan'):
                raise Unsupported('select on %r' % (ch,))
            if d == 'send':
                cases.append((d, ch, self.val(p, fr, A[2 * i + 1]), self.chan_send_ready(p, ch)))
            else:
                cases.append((d, ch, None, self.chan_recv_ready(p, ch)))
        # the solver picks among the ready cases; the two guards are exclusive and
        # their union (some case ready) does not depend on the pick
        pick = p.choice('select')
        r0, r1 = cases[0][3], cases[1][3]
        q = p.fork()
        p.guard.append(z3.And(r0, z3.Or(pick == BV(0), z3.Not(r1))))
        q.guard.append(z3.And(r1, z3.Or(pick != BV(0), z3.Not(r0))))
        for i, pp in ((0, p), (1, q)):
            d, ch, val, _r = cases[i]
            f2 = pp.frames[-1]
            if d == 'send':
                self.chan_do_send(pp, ch, val)
            else:
                self.chan_do_recv(pp, ch)
            self.setreg(pp, f2, reg, (i, True, 0))
            f2.idx += 1
        return [q]

    def spawn(self, p, callee, args):
        m = self.m
        entry = Frame(callee[1], 0, 0, dict(callee[2]) if len(callee) > 2 and callee[2] else {})
        fn = m.funcs[callee[1]]
        for pn, a in zip(fn['params'] or [], args):
            if not isinstance(a, tuple):
                raise Unsupported('go with a non-static argument')
            entry.statics[pn] = a
        locid = m.loc_id(((entry.key(),), None))
        placed = z3.BoolVal(False)
        for s in range(1, m.nprog):
            act = m.var('T%d.active' % s, 'bool')
            free = z3.And(z3.Not(p.get(act)), z3.Not(placed))
            p.set(m.var('T%d.pc' % s, 'pc'), z3.If(free, PC(locid), p.get(m.var('T%d.pc' % s, 'pc'))))
            p.set(act, z3.Or(p.get(act), free))
            placed = z3.Or(placed, free)
        self.flag(p, 'more-goroutines-than-slots', z3.Not(placed))
        spawned = m.var('spawned')
        p.set(spawned, p.get(spawned) + BV(1))

def has_term(v):
    if z3.is_expr(v):
        return True
    if isinstance(v, (tuple, list)):
        return any(has_term(x) for x in v)
    if isinstance(v, dict):
        return any(has_term(x) for x in v.values())
    return False

def _unhash(v):
    if isinstance(v, tuple) and v and isinstance(v[0], tuple) and len(v[0]) == 2 and isinstance(v[0][0], str) and False:
        return dict(v)
    return v

def fr_statics_local(p, ref):
    raise Unsupported('load of whole local array')

# ----- intrinsics: synchronisation, randomness, harness observers -----
INTRINSICS = {}

def intrinsic(*names):
    def deco(f):
        for n in names:
            INTRINSICS[n] = f
        return f
    return deco

def mutex_var(seg, p, ref):
    if ref[0] == 'field':
        return seg.m.var('%s.%s' % (ref[1], ref[2])), '%s.%s' % (ref[1], ref[2])
    if ref[0] == 'efield':
        return None, 'entry.mu'
    raise Unsupported('mutex %r' % (ref,))

@intrinsic('(*sync.Mutex).Lock')
def i_lock(seg, p, fr, args, reg):
    ref = args[0]
    if seg.before_visible(p, 'lock'):
        seg.cut(p); return
    me = BV(p.tid + 1)
    if ref[0] == 'field':
        name, hold = mutex_var(seg, p, ref)
        p.guard.append(p.get(name) == BV(0))
        p.set(name, me)
        p.holding = hold
    else:
        ids = ref[1]
        n = seg.cfg['pool']
        owners = [p.get(seg.m.var('E%d.mu' % i)) for i in range(n)]
        p.guard.append(ite_sel(ids, owners) == BV(0))
        for i in range(n):
            nm = seg.m.var('E%d.mu' % i)
            hit = (to_bv(ids) == BV(i))
            p.set(nm, z3.If(hit, me, p.get(nm)))
        p.holding = 'entry.mu'
    fr.idx += 1

@intrinsic('(*sync.Mutex).Unlock')
def i_unlock(seg, p, fr, args, reg):
    ref = args[0]
    me = BV(p.tid + 1)
    if ref[0] == 'field':
        name, hold = mutex_var(seg, p, ref)
        seg.flag(p, 'unlock-of-mutex-not-held', p.get(name) != me)
        p.set(name, BV(0))
    else:
        ids = ref[1]
        n = seg.cfg['pool']
        owners = [p.get(seg.m.var('E%d.mu' % i)) for i in range(n)]
        seg.flag(p, 'unlock-of-mutex-not-held', ite_sel(ids, owners) != me)
        for i in range(n):
            nm = seg.m.var('E%d.mu' % i)
            p.set(nm, z3.If(to_bv(ids) == BV(i), BV(0), p.get(nm)))
    p.holding = None
    p.visible_done = True
    fr.idx += 1

@intrinsic('(*sync.Cond).Wait')
def i_wait(seg, p, fr, args, reg):
    # atomically: release the mutex, park; later (own transition): once
    # unparked and the mutex is free, re-acquire and continue
    m = seg.m
    mu = m.var('vW.mu')
    parked = m.var('T%d.parked' % p.tid, 'bool')
    if not fr.statics.get('W!resuming') and p.holding != 'vW.mu':
        seg.flag(p, 'cond-wait-without-lock')
    if fr.statics.get('W!resuming'):
        # second half
        fr.statics.pop('W!resuming')
        if seg.before_visible(p, 'wait-resume'):
            fr.statics['W!resuming'] = True
            seg.cut(p); return
        p.guard.append(z3.Not(p.get(parked)))
        p.guard.append(p.get(mu) == BV(0))
        p.set(mu, BV(p.tid + 1))
        wk = m.var('ghost.woken')
        p.set(wk, p.get(wk) - BV(1))
        p.holding = 'vW.mu'
        fr.idx += 1
        return
    p.set(mu, BV(0))
    p.set(parked, z3.BoolVal(True))
    p.holding = None
    fr.statics['W!resuming'] = True
    seg.cut(p)

@intrinsic('(*sync.Cond).Signal')
def i_signal(seg, p, fr, args, reg):
    m = seg.m
    ch = p.choice('signal')
    anyp = z3.BoolVal(False)
    picked = z3.BoolVal(False)
    for t in range(m.nthreads):
        pk = m.var('T%d.parked' % t, 'bool')
        anyp = z3.Or(anyp, p.get(pk))
    # the solver picks which parked goroutine is woken
    ok = z3.BoolVal(False)
    for t in range(m.nthreads):
        pk = m.var('T%d.parked' % t, 'bool')
        sel = z3.And(ch == BV(t), p.get(pk))
        ok = z3.Or(ok, sel)
        p.set(pk, z3.And(p.get(pk), z3.Not(sel)))
    p.choice_cons.append(z3.Or(z3.Not(anyp), ok))
    # ghost: runners woken by a Signal/Broadcast that have not resumed yet
    wk = m.var('ghost.woken')
    p.set(wk, p.get(wk) + z3.If(anyp, BV(1), BV(0)))
    fr.idx += 1

@intrinsic('(*sync.Cond).Broadcast')
def i_broadcast(seg, p, fr, args, reg):
    m = seg.m
    wk = m.var('ghost.woken')
    cnt = p.get(wk)
    for t in range(m.nthreads):
        cnt = cnt + z3.If(p.get(m.var('T%d.parked' % t, 'bool')), BV(1), BV(0))
    p.set(wk, cnt)
    for t in range(m.nthreads):
        p.set(m.var('T%d.parked' % t, 'bool'), z3.BoolVal(False))
    fr.idx += 1

@intrinsic('math/rand.Intn')
def i_intn(seg, p, fr, args, reg):
    n = args[0]
    ch = p.choice('intn')
    p.choice_cons.append(z3.Or(z3.ULT(ch, to_bv(n)), to_bv(n) == BV(0)))
    seg.flag(p, 'rand-intn-nonpositive', to_bv(n) == BV(0))
    seg.setreg(p, fr, reg, ch)
    fr.idx += 1

@intrinsic('(*sync.Map).Load')
def i_mapload(seg, p, fr, args, reg):
    if seg.before_visible(p, 'map.load'):
        seg.cut(p); return
    m = seg.m
    k = args[1]
    nk = seg.cfg['keys']
    ents = [p.get(m.var('M.k%d' % i, init=BV(NIL))) for i in range(nk)]
    e = ite_sel(k, ents)
    seg.setreg(p, fr, reg, (e, e != BV(NIL)))
    fr.idx += 1

@intrinsic('(*sync.Map).LoadOrStore')
def i_maplos(seg, p, fr, args, reg):
    if seg.before_visible(p, 'map.loadorstore'):
        seg.cut(p); return
    m = seg.m
    k, newv = args[1], args[2]
    if not (isinstance(newv, tuple) and newv[0] == 'eptr'):
        raise Unsupported('LoadOrStore of %r' % (newv,))
    nk = seg.cfg['keys']
    ents = [p.get(m.var('M.k%d' % i, init=BV(NIL))) for i in range(nk)]
    cur = ite_sel(k, ents)
    present = cur != BV(NIL)
    for i in range(nk):
        nm = m.var('M.k%d' % i, init=BV(NIL))
        p.set(nm, z3.If(z3.And(to_bv(k) == BV(i), z3.Not(present)), to_bv(newv[1]), p.get(nm)))
    seg.setreg(p, fr, reg, (z3.If(present, cur, to_bv(newv[1])), present))
    fr.idx += 1

@intrinsic('(*sync.Map).Store')
def i_mapstore(seg, p, fr, args, reg):
    if seg.before_visible(p, 'map.store'):
        seg.cut(p); return
    m = seg.m
    k, newv = args[1], args[2]
    if not (isinstance(newv, tuple) and newv[0] == 'eptr'):
        raise Unsupported('Store of %r' % (newv,))
    for i in range(seg.cfg['keys']):
        nm = m.var('M.k%d' % i, init=BV(NIL))
        p.set(nm, z3.If(to_bv(k) == BV(i), to_bv(newv[1]), p.get(nm)))
    fr.idx += 1

@intrinsic('sync/atomic.LoadUint32')
def i_aload(seg, p, fr, args, reg):
    if seg.before_visible(p, 'atomic.load'):
        seg.cut(p); return
    seg.setreg(p, fr, reg, seg.load(p, fr, args[0], 'uint32'))
    fr.idx += 1

@intrinsic('sync/atomic.StoreUint32')
def i_astore(seg, p, fr, args, reg):
    if seg.before_visible(p, 'atomic.store'):
        seg.cut(p); return
    seg.store(p, fr, args[0], args[1])
    fr.idx += 1

# ----- context, process, timer (mode wos) -----
ERR_NIL, ERR_CTX, ERR_PROCDONE, ERR_CANCELED, ERR_WAIT = 0, 1, 2, 3, 4

def child_done(seg, p):
    m = seg.m
    own = z3.Or(p.get(m.var('child.fired', 'bool')), p.get(m.var('child.cancelled', 'bool')))
    if m.cells.get('!childparent') == 'bg':
        return own
    return z3.Or(p.get(m.var('ctx.done', 'bool')), own)

@intrinsic('invoke:Done')
def i_ctxdone(seg, p, fr, args, reg):
    c = args[0]
    if c == ('ctx',):
        seg.setreg(p, fr, reg, ('chan', 'ctxdone'))
    elif c == ('ctx', 'child'):
        seg.setreg(p, fr, reg, ('chan', 'childdone'))
    elif c == ('ctx', 'bg'):
        seg.setreg(p, fr, reg, ('chan', 'never'))
    else:
        raise Unsupported('Done of %r' % (c,))
    fr.idx += 1

@intrinsic('invoke:Err')
def i_ctxerr(seg, p, fr, args, reg):
    if seg.before_visible(p, 'ctx.Err'):
        seg.cut(p); return
    m = seg.m
    c = args[0]
    if c == ('ctx',):
        v = z3.If(p.get(m.var('ctx.done', 'bool')), BV(ERR_CTX), BV(ERR_NIL))
    elif c == ('ctx', 'child'):
        expired = z3.Or(p.get(m.var('child.fired', 'bool')), p.get(m.var('ctx.done', 'bool')) if m.cells.get('!childparent') != 'bg' else z3.BoolVal(False))
        v = z3.If(expired, BV(ERR_CTX), z3.If(p.get(m.var('child.cancelled', 'bool')), BV(ERR_CANCELED), BV(ERR_NIL)))
    elif c == ('ctx', 'bg'):
        v = BV(ERR_NIL)
    else:
        raise Unsupported('Err of %r' % (c,))
    seg.setreg(p, fr, reg, v)
    fr.idx += 1

@intrinsic('context.Background', 'context.TODO')
def i_ctxbg(seg, p, fr, args, reg):
    seg.setreg(p, fr, reg, ('ctx', 'bg')); fr.idx += 1

@intrinsic('context.WithTimeout')
def i_withtimeout(seg, p, fr, args, reg):
    # a derived context: done when its parent is done, when its own timeout fires, or when cancelled
    m = seg.m
    parent = args[0]
    if parent not in (('ctx',), ('ctx', 'bg')):
        raise Unsupported('WithTimeout of %r' % (parent,))
    kind = 'bg' if parent == ('ctx', 'bg') else 'run'
    if m.cells.get('!childparent', kind) != kind:
        raise Unsupported('two derived contexts with different parents')
    m.cells['!childparent'] = kind
    seg.flag(p, 'second-derived-context', p.get(m.var('child.created', 'bool')))
    seg.flag(p, 'timer-with-nonpositive-delay', z3.Not(to_bv(args[1]) > BV(0)))
    p.set(m.var('child.created', 'bool'), z3.BoolVal(True))
    seg.setreg(p, fr, reg, (('ctx', 'child'), ('func', 'ctxcancel:child')))
    fr.idx += 1

@intrinsic('ctxcancel:child')
def i_ctxcancel(seg, p, fr, args, reg):
    p.set(seg.m.var('child.cancelled', 'bool'), z3.BoolVal(True))
    fr.idx += 1

def deliver(seg, p, what):
    m = seg.m
    waited = p.get(m.var('proc.waited', 'bool'))
    running = p.get(m.var('proc.running', 'bool', init=z3.BoolVal(True)))
    tgt = m.var('proc.' + what, 'bool')
    p.set(tgt, z3.Or(p.get(tgt), z3.Not(waited)))
    hit = m.var('proc.hit', 'bool')
    p.set(hit, z3.Or(p.get(hit), running))
    return waited

@intrinsic('(*os.Process).Signal')
def i_psignal(seg, p, fr, args, reg):
    if seg.before_visible(p, 'Process.Signal'):
        seg.cut(p); return
    m = seg.m
    sig = args[1]
    if is_conc(sig) and sig == 9:
        # Signal(os.Kill) is Kill
        return kill_now(seg, p, fr, reg)
    if not (is_conc(sig) and sig in (2, 3)):
        raise Unsupported('Signal(%r)' % (sig,))
    # SIGQUIT and SIGINT alike: a signal the process may catch or ignore
    seg.flag(p, 'signal-sent-before-the-deadline', z3.Not(p.get(m.var('ctx.done', 'bool'))))
    waited = deliver(seg, p, 'interrupted')
    p.set(m.var('proc.intsent', 'bool'), z3.BoolVal(True))
    sigok = m.var('proc.sigok', 'bool')
    p.set(sigok, z3.Or(p.get(sigok), z3.Not(waited)))
    # os.Process.Signal: ErrProcessDone once the process has been waited for, nil otherwise
    seg.setreg(p, fr, reg, z3.If(waited, BV(ERR_PROCDONE), BV(ERR_NIL)))
    fr.idx += 1

def kill_now(seg, p, fr, reg):
    m = seg.m
    seg.flag(p, 'kill-sent-before-the-deadline', z3.Not(p.get(m.var('ctx.done', 'bool'))))
    seg.flag(p, 'kill-without-interrupt-first', z3.Not(p.get(m.var('proc.intsent', 'bool'))))
    seg.flag(p, 'kill-before-the-grace-period-elapsed', z3.Not(z3.Or(p.get(m.var('timer.fired', 'bool')), p.get(m.var('child.fired', 'bool')))))
    waited = deliver(seg, p, 'killed')
    p.set(m.var('proc.killsent', 'bool'), z3.BoolVal(True))
    seg.setreg(p, fr, reg, z3.If(waited, BV(ERR_PROCDONE), BV(ERR_NIL)))
    fr.idx += 1

@intrinsic('(*os.Process).Kill')
def i_pkill(seg, p, fr, args, reg):
    if seg.before_visible(p, 'Process.Kill'):
        seg.cut(p); return
    return kill_now(seg, p, fr, reg)

@intrinsic('(*os/exec.Cmd).Wait')
def i_cmdwait(seg, p, fr, args, reg):
    if seg.before_visible(p, 'Cmd.Wait'):
        seg.cut(p); return
    m = seg.m
    p.guard.append(z3.Not(p.get(m.var('proc.running', 'bool', init=z3.BoolVal(True)))))
    p.set(m.var('proc.waited', 'bool'), z3.BoolVal(True))
    # a process ended by a signal yields an *ExitError; one that exited by itself yields its own status
    we = z3.If(p.get(m.var('proc.sigdeath', 'bool')), BV(ERR_WAIT), z3.If(m.const('SELF_FAILS'), BV(ERR_WAIT), BV(ERR_NIL)))
    p.set(m.var('proc.waiterr'), we)
    seg.setreg(p, fr, reg, we)
    fr.idx += 1

@intrinsic('time.NewTimer')
def i_newtimer(seg, p, fr, args, reg):
    m = seg.m
    seg.flag(p, 'second-timer', p.get(m.var('timer.started', 'bool')))
    seg.flag(p, 'timer-with-nonpositive-delay', z3.Not(to_bv(args[0]) > BV(0)))
    p.set(m.var('timer.started', 'bool'), z3.BoolVal(True))
    seg.setreg(p, fr, reg, ('timer',))
    fr.idx += 1

@intrinsic('(*time.Timer).Stop')
def i_timerstop(seg, p, fr, args, reg):
    m = seg.m
    fired = p.get(m.var('timer.fired', 'bool'))
    p.set(m.var('timer.stopped', 'bool'), z3.BoolVal(True))
    seg.setreg(p, fr, reg, z3.Not(fired))
    fr.idx += 1

@intrinsic('vWosCtx')
def i_wosctx(seg, p, fr, args, reg):
    seg.setreg(p, fr, reg, ('ctx',)); fr.idx += 1

@intrinsic('vWosCmd')
def i_woscmd(seg, p, fr, args, reg):
    seg.setreg(p, fr, reg, ('cmdptr',)); fr.idx += 1

@intrinsic('vWosKillDelay')
def i_woskd(seg, p, fr, args, reg):
    seg.setreg(p, fr, reg, seg.m.const('KD', 'bv')); fr.idx += 1

@intrinsic('vWosReturned')
def i_wosret(seg, p, fr, args, reg):
    m = seg.m
    err = to_bv(args[0])
    p.set(m.var('returned', 'bool'), z3.BoolVal(True))
    p.set(m.var('wos.err'), err)
    seg.flag(p, 'returned-while-the-process-is-still-running', p.get(m.var('proc.running', 'bool', init=z3.BoolVal(True))))
    seg.flag(p, 'returned-without-waiting-for-the-process', z3.Not(p.get(m.var('proc.waited', 'bool'))))
    seg.flag(p, 'command-stopped-by-the-deadline-reported-as-success', z3.And(p.get(m.var('proc.hit', 'bool')), err == BV(ERR_NIL)))
    seg.flag(p, 'result-differs-from-wait-although-no-signal-was-delivered', z3.And(z3.Not(p.get(m.var('proc.sigok', 'bool'))), err != p.get(m.var('proc.waiterr'))))
    seg.flag(p, 'timed-out-reported-before-the-deadline', z3.And(err == BV(ERR_CTX), z3.Not(p.get(m.var('ctx.done', 'bool')))))
    fr.idx += 1

# harness
@intrinsic('vParamItems')
def i_pitems(seg, p, fr, args, reg):
    seg.setreg(p, fr, reg, seg.cfg['items']); fr.idx += 1

@intrinsic('vParamWorkers')
def i_pworkers(seg, p, fr, args, reg):
    seg.setreg(p, fr, reg, seg.cfg['workers']); fr.idx += 1

@intrinsic('vEdge')
def i_edge(seg, p, fr, args, reg):
    i, j = args
    n = seg.cfg['items']
    rows = []
    for a in range(n):
        cols = [seg.m.const('G_%d_%d' % (a, b)) for b in range(n)]
        rows.append(ite_sel(j, cols))
    seg.setreg(p, fr, reg, ite_sel(i, rows))
    fr.idx += 1

@intrinsic('vInit')
def i_init(seg, p, fr, args, reg):
    n = seg.cfg['items']
    seg.setreg(p, fr, reg, ite_sel(args[0], [seg.m.const('I_%d' % a) for a in range(n)]))
    fr.idx += 1

@intrinsic('vBegin')
def i_begin(seg, p, fr, args, reg):
    m = seg.m
    i = args[0]
    n = seg.cfg['items']
    for a in range(n):
        c = m.var('count.%d' % a)
        hit = to_bv(i) == BV(a)
        seg.flag(p, 'item-processed-twice', z3.And(hit, p.get(c) != BV(0)))
        p.set(c, z3.If(hit, p.get(c) + BV(1), p.get(c)))
    infl = m.var('inflight')
    p.set(infl, p.get(infl) + BV(1))
    seg.flag(p, 'more-than-n-calls-in-progress', z3.UGT(p.get(infl), BV(seg.cfg['workers'])))
    fr.idx += 1

@intrinsic('vEnd')
def i_end(seg, p, fr, args, reg):
    m = seg.m
    i = args[0]
    for a in range(seg.cfg['items']):
        c = m.var('ended.%d' % a)
        p.set(c, z3.If(to_bv(i) == BV(a), p.get(c) + BV(1), p.get(c)))
    infl = m.var('inflight')
    p.set(infl, p.get(infl) - BV(1))
    fr.idx += 1

@intrinsic('vMainReturned')
def i_returned(seg, p, fr, args, reg):
    m = seg.m
    n = seg.cfg['items']
    p.set(m.var('returned', 'bool'), z3.BoolVal(True))
    # when Do returns: every added item was processed to completion, nothing in progress or left to do
    for a in range(n):
        added = p.get(m.var('vW.added.k%d' % a, 'bool'))
        seg.flag(p, 'returned-before-all-items-done', z3.And(added, p.get(m.var('ended.%d' % a)) != BV(1)))
        seg.flag(p, 'item-run-but-never-added', z3.And(z3.Not(added), p.get(m.var('count.%d' % a)) != BV(0)))
    seg.flag(p, 'returned-with-calls-in-progress', p.get(m.var('inflight')) != BV(0))
    seg.flag(p, 'returned-with-work-left', p.get(m.var('vW.todo.len')) != BV(0))
    fr.idx += 1

@intrinsic('vCallKind')
def i_callkind(seg, p, fr, args, reg):
    g = args[0]
    k = seg.m.const('CK_%d' % g, 'bv')
    seg.setreg(p, fr, reg, k)
    fr.idx += 1

@intrinsic('vComputeBegin')
def i_cbegin(seg, p, fr, args, reg):
    m = seg.m
    k = args[0]
    inv = None
    for a in range(seg.cfg['keys']):
        c = m.var('inv.%d' % a)
        hit = (to_bv(k) == BV(a))
        seg.flag(p, 'function-invoked-twice-for-a-key', z3.And(hit, p.get(c) != BV(0)))
        p.set(c, z3.If(hit, p.get(c) + BV(1), p.get(c)))
    seg.setreg(p, fr, reg, ite_sel(k, [p.get(m.var('inv.%d' % a)) for a in range(seg.cfg['keys'])]))
    fr.idx += 1

@intrinsic('vComputeEnd')
def i_cend(seg, p, fr, args, reg):
    m = seg.m
    k = args[0]
    for a in range(seg.cfg['keys']):
        c = m.var('cdone.%d' % a, 'bool')
        p.set(c, z3.Or(p.get(c), to_bv(k) == BV(a)))
    fr.idx += 1

@intrinsic('vYield')
def i_yield(seg, p, fr, args, reg):
    if fr.statics.get('Y!resumed'):
        fr.statics.pop('Y!resumed')
        fr.idx += 1
        return
    fr.statics['Y!resumed'] = True
    p.visible_done = True
    p.vis_ops.append('yield')
    seg.cut(p)

def expected_value(seg, p, k):
    # the value the single invocation for key k returns: k*8 + 1, or nil if the solver made it a nil-returning function
    nr = ite_sel(k, [seg.m.const('NR_%d' % a) for a in range(seg.cfg['keys'])])
    return z3.If(nr, BV(NIL), to_bv(k) * BV(8) + BV(1))

@intrinsic('vNilResult')
def i_nilres(seg, p, fr, args, reg):
    seg.setreg(p, fr, reg, ite_sel(args[0], [seg.m.const('NR_%d' % a) for a in range(seg.cfg['keys'])]))
    fr.idx += 1

@intrinsic('vGotDo')
def i_gotdo(seg, p, fr, args, reg):
    m = seg.m
    g, k, v = args
    done = ite_sel(k, [p.get(m.var('cdone.%d' % a, 'bool')) for a in range(seg.cfg['keys'])])
    seg.flag(p, 'do-returned-before-function-completed', z3.Not(done))
    seg.flag(p, 'do-returned-wrong-value', to_bv(v) != expected_value(seg, p, k))
    fr.idx += 1

@intrinsic('vGotGet')
def i_gotget(seg, p, fr, args, reg):
    g, k, v = args
    seg.flag(p, 'get-returned-foreign-value', z3.And(to_bv(v) != BV(NIL), to_bv(v) != expected_value(seg, p, k)))
    fr.idx += 1

# ----- building the transition system -----

def build(m, seg, entries):
    """entries: list of (tid, function name, static params, scalar params dict)"""
    entry_locs = {}
    for tid, fname, statics in entries:
        fr = Frame(fname, 0, 0, statics)
        entry_locs[tid] = m.loc_id(((fr.key(),), None))
    # explore all (tid, loc) summaries to closure
    done = set()
    progress = True
    while progress:
        progress = False
        for locid in range(len(m.loc_list)):
            for tid in range(m.nthreads):
                if (tid, locid) in done:
                    continue
                if not loc_possible(m, tid, locid, entry_locs):
                    continue
                done.add((tid, locid))
                progress = True
                paths = seg.run_segment(tid, m.loc_list[locid])
                m.summaries[(tid, locid)] = paths
    return entry_locs

def loc_possible(m, tid, locid, entry_locs):
    # thread 0 runs the main entry; spawned threads run the spawned functions:
    # a location belongs to the thread types that can reach it
    return locid in m.reach.get(tid, set())

def compute_reach(m, seg, entries):
    """Per thread: set of reachable locations (fixpoint), computing summaries on the way."""
    m.reach = {t: set() for t in range(m.nthreads)}
    entry_locs = {}
    for tid, fname, statics in entries:
        fr = Frame(fname, 0, 0, statics)
        l = m.loc_id(((fr.key(),), None))
        entry_locs[tid] = l
        m.reach[tid].add(l)
    changed = True
    while changed:
        changed = False
        for tid in range(m.nthreads):
            for locid in list(m.reach[tid]):
                if (tid, locid) in m.summaries:
                    continue
                before = len(m.loc_list)
                paths = seg.run_segment(tid, m.loc_list[locid])
                m.summaries[(tid, locid)] = paths
                changed = True
                for p in paths:
                    if p.finished[0] == 'loc':
                        if p.finished[1] not in m.reach[tid]:
                            m.reach[tid].add(p.finished[1])
                # spawned entry locations become reachable for the spawn slots
                for l in range(before, len(m.loc_list)):
                    pass
        # locations created by spawn(): any loc whose frames are a single entry frame of a spawned function
        for locid, loc in enumerate(m.loc_list):
            frames, holding = loc
            if len(frames) == 1 and frames[0][1] == 0 and frames[0][2] == 0 and frames[0][0] in m.cfg.get('spawned', []):
                for s in range(1, m.nprog):
                    if locid not in m.reach[s]:
                        m.reach[s].add(locid)
                        changed = True
    return entry_locs

# environment of waitOrStop: each process has one location and one guarded self-loop
WOS_ENV = ['deadline-fires', 'process-exits-by-itself', 'process-exits-on-interrupt', 'process-dies-from-kill', 'timer-fires', 'derived-timeout-fires']

def add_env_threads(m, entry_locs):
    S = lambda n: m.tmpl(n)
    T, F = z3.BoolVal(True), z3.BoolVal(False)
    defs = {
        'deadline-fires': ([m.const('DEADLINE_SET'), z3.Not(S('ctx.done'))], {'ctx.done': T}),
        'process-exits-by-itself': ([m.const('EXITS_BY_ITSELF'), S('proc.running')], {'proc.running': F}),
        'process-exits-on-interrupt': ([z3.Not(m.const('IGNORES_INTERRUPT')), S('proc.running'), S('proc.interrupted')], {'proc.running': F, 'proc.sigdeath': T}),
        'process-dies-from-kill': ([S('proc.running'), S('proc.killed')], {'proc.running': F, 'proc.sigdeath': T}),
        'timer-fires': ([S('timer.started'), z3.Not(S('timer.fired')), z3.Not(S('timer.stopped'))], {'timer.fired': T}),
        'derived-timeout-fires': ([S('child.created'), z3.Not(S('child.fired')), z3.Not(S('child.cancelled'))], {'child.fired': T}),
    }
    for i, name in enumerate(WOS_ENV):
        tid = m.nprog + i
        loc = m.loc_id((('ENV', name), None))
        guards, updates = defs[name]
        p = Path(m, tid, [], None, dict(updates), list(guards))
        p.finished = ('loc', loc)
        m.reach[tid] = {loc}
        m.summaries[(tid, loc)] = [p]
        entry_locs[tid] = loc

def unroll(m, K, entry_locs, initial_active):
    """Standard BMC unrolling: the transition relation is built once over
    template constants (current state S!v, next state N!v, scheduler SCHED!,
    free choices CH!i, auxiliary enabling bits) and instantiated per step by
    substitution with fresh per-step constants."""
    names = list(m.order)
    def sortof(n):
        return m.vars[n][0]
    def mk(prefix, n, k=None):
        nm = '%s%s' % (prefix, n) if k is None else '%s@%d' % (n, k)
        if sortof(n) == 'pc':
            return z3.BitVec(nm, PCW)
        return z3.Bool(nm) if sortof(n) == 'bool' else z3.BitVec(nm, W)
    cur = {n: m.tmpl(n) for n in names}
    nxt = {n: mk('N!', n) for n in names}
    sched = z3.BitVec('SCHED!', W)
    aux = []      # template aux booleans
    T = []        # template constraints
    upd = {}
    enabled = []
    racy = []
    for tid in range(m.nthreads):
        act = z3.And(cur['T%d.active' % tid], z3.Not(cur['T%d.done' % tid]))
        t_enabled = []
        for locid in sorted(m.reach[tid]):
            paths = m.summaries[(tid, locid)]
            at = z3.And(act, cur['T%d.pc' % tid] == PC(locid))
            for pi, p in enumerate(paths):
                g = z3.And(*[to_bool(c) for c in p.guard]) if p.guard else z3.BoolVal(True)
                cond = z3.Bool('AUX!en_%d_%d_%d' % (tid, locid, pi))
                aux.append(cond)
                T.append(cond == z3.And(at, g))
                t_enabled.append(cond)
                fire = z3.And(sched == BV(tid), cond)
                for cc in p.choice_cons:
                    T.append(z3.Implies(fire, cc))
                for var, val in p.state.items():
                    upd.setdefault(var, []).append((fire, val))
                if p.finished[0] == 'loc':
                    upd.setdefault('T%d.pc' % tid, []).append((fire, PC(p.finished[1])))
                else:
                    upd.setdefault('T%d.done' % tid, []).append((fire, z3.BoolVal(True)))
                if p.plain_access is not None:
                    racy.append((tid, cond, p.plain_access))
        en_t = z3.Bool('AUX!enabled_%d' % tid)
        aux.append(en_t)
        T.append(en_t == (z3.Or(*t_enabled) if t_enabled else z3.BoolVal(False)))
        enabled.append(en_t)
    for n in names:
        acc = cur[n]
        for cond, val in upd.get(n, []):
            if isinstance(val, bool):
                val = z3.BoolVal(val)
            elif isinstance(val, int):
                val = BV(val)
            acc = z3.If(cond, val, acc)
        T.append(nxt[n] == acc)
    Tall = z3.And(*T)
    racy_terms = []
    for (t1, c1, a1), (t2, c2, a2) in itertools.combinations(racy, 2):
        if t1 == t2 or (a1[0] == 'read' and a2[0] == 'read'):
            continue
        l1, l2 = a1[1], a2[1]
        if isinstance(l1, tuple) and isinstance(l2, tuple):
            if l1[2] == l2[2]:
                racy_terms.append(z3.And(c1, c2, to_bv(l1[1]) == to_bv(l2[1])))
        elif l1 == l2:
            racy_terms.append(z3.And(c1, c2))
    race_t = z3.Or(*racy_terms) if racy_terms else z3.BoolVal(False)

    cons = []
    states = []
    st0 = {n: mk('', n, 0) for n in names}
    for n in names:
        sort, init = m.vars[n]
        v = init
        if n.startswith('T') and n.endswith('.pc'):
            v = PC(entry_locs.get(int(n[1:n.index('.')]), 0))
        if n.startswith('T') and n.endswith('.active'):
            v = z3.BoolVal(int(n[1:n.index('.')]) in initial_active)
        cons.append(st0[n] == v)
    states.append(st0)
    info = []
    for k in range(K):
        c = states[-1]
        nx = {n: mk('', n, k + 1) for n in names}
        pairs = [(cur[n], c[n]) for n in names] + [(nxt[n], nx[n]) for n in names]
        sk = z3.BitVec('sched_%d' % k, W)
        pairs.append((sched, sk))
        for i in range(m.nchoice):
            pairs.append((z3.BitVec('CH!%d' % i, W), z3.BitVec('ch_%d_%d' % (k, i), W)))
        for a in aux:
            pairs.append((a, z3.Bool('%s@%d' % (str(a)[4:], k))))
        cons.append(z3.substitute(Tall, *pairs))
        en_k = [z3.substitute(e, *pairs) for e in enabled]
        info.append({'enabled': en_k, 'sched': sk, 'race': z3.substitute(race_t, *pairs)})
        states.append(nx)
    return states, cons, info

def main():
    import argparse
    if os.environ.get('TSYS_PARALLEL', '1') != '0':
        z3.set_param('parallel.enable', True)
        z3.set_param('parallel.threads.max', int(os.environ.get('TSYS_THREADS', '16')))
    ap = argparse.ArgumentParser()
    ap.add_argument('--ssa', required=True)
    ap.add_argument('--mode', choices=['work', 'cache', 'wos'], required=True)
    ap.add_argument('--workers', type=int, default=2)
    ap.add_argument('--items', type=int, default=2)
    ap.add_argument('--goroutines', type=int, default=3)
    ap.add_argument('--steps', type=int, default=30)
    ap.add_argument('--out', default='')
    ap.add_argument('--timeout', type=int, default=600)
    ap.add_argument('--ck', default='', help='cache mode: fix the call kinds, e.g. 0,0,2')
    ap.add_argument('--env', default='', help='wos mode: fix environment constants, e.g. DEADLINE_SET=1,IGNORES_INTERRUPT=1')
    ap.add_argument('--no-witness', action='store_true', help='wos mode: only require that a complete run exists')
    ap.add_argument('--graph', default='', help='work mode: fix initial adds and item graph, e.g. I=100,G=010001000 (row-major)')
    args = ap.parse_args()
    ssa = json.load(open(args.ssa))
    t0 = time.time()
    if args.mode == 'work':
        cfg = {
            'threads': args.workers + 1,   # one slot more than Do may use, so that an extra runner is observable
            'workers': args.workers, 'items': args.items, 'maxtodo': args.items, 'pool': 0, 'keys': 0,
            'fields': {'vW.f': 'static', 'vW.running': 'int', 'vW.mu': 'mutex', 'vW.added': 'map', 'vW.todo': 'slice',
                       'vW.wait': 'cond', 'vW.waiting': 'int', 'vW.wait.L': 'static'},
            'spawned': ['(*github.com/rogpeppe/go-internal/par.Work).runner'],
        }
        entries = [(0, 'github.com/rogpeppe/go-internal/par.VerifWorkMain', {})]
        initial_active = {0}
    elif args.mode == 'wos':
        # T0 = the goroutine running the command, T1 = the helper goroutine; T2.. = environment processes
        pk = 'github.com/rogpeppe/go-internal/testscript.'
        cfg = {'threads': 2 + len(WOS_ENV), 'nprog': 2, 'workers': 0, 'items': 0, 'maxtodo': 0, 'pool': 0, 'keys': 0,
               'fields': {}, 'cells': True, 'globals': {'ErrProcessDone': ERR_PROCDONE, 'Interrupt': 2, 'Kill': 9},
               'spawned': [pk + 'waitOrStop$1']}
        entries = [(0, pk + 'VerifWosMain', {})]
        initial_active = {0} | set(range(2, 2 + len(WOS_ENV)))
    else:
        g = args.goroutines
        cfg = {'threads': g, 'workers': 0, 'items': 0, 'maxtodo': 0, 'pool': g, 'keys': 2,
               'fields': {'vC.m': 'syncmap'}, 'spawned': []}
        entries = [(t, 'github.com/rogpeppe/go-internal/par.VerifCacheThread', {'g': t}) for t in range(g)]
        initial_active = set(range(g))
    m = Model(ssa, cfg)
    seg = Seg(m)
    # declare thread bookkeeping variables
    for t in range(m.nthreads):
        m.var('T%d.pc' % t, 'pc')
        m.var('T%d.active' % t, 'bool')
        m.var('T%d.done' % t, 'bool')
        m.var('T%d.parked' % t, 'bool')
    m.var('spawned')
    if args.mode == 'work':
        m.var('ghost.woken')
    if args.mode == 'wos':
        m.var('proc.running', 'bool', init=z3.BoolVal(True))
        for n in ('ctx.done', 'proc.waited', 'proc.interrupted', 'proc.killed', 'proc.hit', 'proc.sigok', 'proc.intsent', 'proc.killsent', 'proc.sigdeath',
                  'timer.started', 'timer.fired', 'timer.taken', 'timer.stopped', 'child.created', 'child.fired', 'child.cancelled', 'returned'):
            m.var(n, 'bool')
        m.var('proc.waiterr'); m.var('wos.err')
    try:
        entry_locs = compute_reach(m, seg, entries)
        if args.mode == 'wos':
            add_env_threads(m, entry_locs)
    except Unsupported as e:
        print('UNSUPPORTED', e)
        result = {'status': 'unsupported', 'detail': str(e)}
        if args.out:
            json.dump(result, open(args.out, 'w'), indent=1)
        sys.exit(2)
    nloc = len(m.loc_list)
    ntrans = sum(len(v) for v in m.summaries.values())
    print('encoded: %d locations, %d guarded transitions, %d state variables, functions: %s' % (nloc, ntrans, len(m.vars), sorted(x.split('/')[-1] for x in m.encoded_funcs)), flush=True)
    K = args.steps
    states, cons, info = unroll(m, K, entry_locs, initial_active)
    t_build = time.time() - t0

    def any_err(st):
        errs = [st[n] for n in m.order if n.startswith('err.') and n in st]
        return z3.Or(*errs) if errs else z3.BoolVal(False)

    def all_done(st):
        return z3.And(*[z3.Or(z3.Not(st['T%d.active' % t]), st['T%d.done' % t]) for t in range(m.nprog)])

    base = list(cons)
    # the scheduler picks a thread; a step by a thread that is not enabled is a stutter step and
    # is only allowed once everything has finished (so K may exceed the run length)
    for k in range(K):
        en = info[k]['enabled']
        s = info[k]['sched']
        base.append(z3.ULT(s, BV(m.nthreads)))
        picked_enabled = z3.Or(*[z3.And(s == BV(t), en[t]) for t in range(m.nthreads)])
        none_enabled = z3.Not(z3.Or(*en))
        base.append(z3.Or(picked_enabled, none_enabled))
    if args.mode == 'cache':
        for t in range(m.nthreads):
            base.append(z3.ULT(m.const('CK_%d' % t, 'bv'), BV(4)))
        if args.ck:
            for t, c in enumerate(args.ck.split(',')):
                base.append(m.const('CK_%d' % t, 'bv') == BV(int(c)))

    live = []
    if args.mode == 'wos':
        base.append(m.const('KD', 'bv') > BV(0))     # the grace period is positive (RunT: at least 100ms)
        # termination is claimed only where something ends the command: a deadline is set or it exits by itself
        live = [z3.Or(m.const('DEADLINE_SET'), m.const('EXITS_BY_ITSELF'))]
        for c in (args.env or '').split(','):
            if c:
                k, b = c.split('=')
                base.append(m.const(k) == (b == '1'))
    if args.mode == 'work' and args.graph:
        n = args.items
        for part in args.graph.split(','):
            k, bits = part.split('=')
            if k == 'I':
                for j, b in enumerate(bits):
                    base.append(m.const('I_%d' % j) == (b == '1'))
            elif k == 'G':
                for idx, b in enumerate(bits):
                    base.append(m.const('G_%d_%d' % (idx // n, idx % n)) == (b == '1'))
    results = {}
    queries = []
    def check(name, extra, expect):
        s = z3.SolverFor('QF_BV')
        s.set('timeout', args.timeout * 1000)
        s.add(*base)
        s.add(extra)
        t1 = time.time()
        r = s.check()
        dt = time.time() - t1
        queries.append({'query': name, 'result': str(r), 'time_s': round(dt, 2), 'expect': expect})
        print('query %-28s -> %-7s (%.1fs, expected %s)' % (name, r, dt, expect), flush=True)
        mdl = s.model() if r == z3.sat else None
        return r, mdl

    # (a) safety: an error flag becomes true within K steps
    bad = z3.Or(*[any_err(st) for st in states])
    ra, ma = (z3.unsat, None) if os.environ.get('TSYS_SKIP_SAFETY') else check('safety', bad, 'unsat')
    # (b) deadlock: some state with an unfinished thread and nothing enabled
    dl = []
    for k in range(K):
        en = info[k]['enabled']
        dl.append(z3.And(z3.Not(z3.Or(*en)), z3.Not(all_done(states[k]))))
    rb, mb = check('deadlock', z3.And(z3.Or(*dl), *live), 'unsat')
    # (b2) lost wake-up (work): while the mutex is free, a runner sleeps although more items are queued
    # than runners have been woken and are on their way
    rl, ml = z3.unsat, None
    if args.mode == 'work':
        lw = []
        for k in range(K + 1):
            st = states[k]
            anyparked = z3.Or(*[z3.And(st['T%d.active' % t], st['T%d.parked' % t]) for t in range(m.nthreads)])
            lw.append(z3.And(st['vW.mu'] == BV(0), anyparked, z3.ULT(st['ghost.woken'], st['vW.todo.len'])))
        rl, ml = check('lost-wakeup', z3.Or(*lw), 'unsat')
    # (b3) Get never blocks (cache): a goroutine whose call is a Get is enabled in every state until it has finished
    rg, mg = z3.unsat, None
    if args.mode == 'cache':
        gb = []
        for k in range(K):
            st = states[k]
            for t in range(m.nthreads):
                isget = z3.UGE(m.const('CK_%d' % t, 'bv'), BV(2))
                gb.append(z3.And(isget, st['T%d.active' % t], z3.Not(st['T%d.done' % t]), z3.Not(info[k]['enabled'][t])))
        rg, mg = check('get-blocks', z3.Or(*gb), 'unsat')
    # (c) unwinding assertion: after K steps everything has finished
    rc, mc = check('unwinding', z3.And(z3.Not(all_done(states[K])), *live), 'unsat')
    # (d) witness: a complete run exists in which something happened
    if args.mode == 'wos' and args.no_witness:
        wit = z3.And(all_done(states[K]), states[K]['returned'])
    elif args.mode == 'wos':
        # the full escalation happens: interrupt ignored, killed after the grace period, reported as timed out
        wit = z3.And(all_done(states[K]), states[K]['returned'], states[K]['proc.killsent'], states[K]['proc.sigdeath'], m.const('IGNORES_INTERRUPT'), z3.Not(m.const('EXITS_BY_ITSELF')), states[K]['wos.err'] == BV(ERR_CTX))
    elif args.mode == 'work':
        wit = z3.And(all_done(states[K]), states[K]['returned'], states[K]['count.0'] == BV(1))
    else:
        # a complete run in which the function ran exactly once for every key some goroutine calls Do on
        parts = [all_done(states[K])]
        for k in range(cfg['keys']):
            called = z3.Or(*[m.const('CK_%d' % t, 'bv') == BV(k) for t in range(m.nthreads)])
            parts.append(states[K]['inv.%d' % k] == z3.If(called, BV(1), BV(0)))
        if not args.ck:
            parts.append(states[K]['inv.0'] == BV(1))
        wit = z3.And(*parts)
    rd, md = check('witness', wit, 'sat')
    # (e) data race on a plain location (cache): two different threads enabled at conflicting plain accesses
    re = z3.unsat
    me = None
    if args.mode == 'cache':
        races = [info[k]['race'] for k in range(K)]
        re, me = check('data-race', z3.Or(*races) if races else z3.BoolVal(False), 'unsat')

    status = 'ok'
    violation = None
    for name, r, mdl in (('safety', ra, ma), ('deadlock', rb, mb), ('lost-wakeup', rl, ml), ('get-blocks', rg, mg), ('data-race', re, me)):
        if r == z3.sat:
            status = 'violation'
            violation = describe(m, states, info, mdl, name, K)
            break
        if r == z3.unknown:
            status = 'inconclusive'
    if status == 'ok':
        if rc != z3.unsat:
            status = 'inconclusive'
            results['detail'] = 'unwinding assertion not discharged: K too small or a schedule does not terminate (%s)' % rc
            if rc == z3.sat:
                results['unwinding_trace'] = describe(m, states, info, mc, 'unwinding', K)
        elif rd != z3.sat:
            status = 'inconclusive'
            results['detail'] = 'vacuity: no complete witness run (%s)' % rd
    witness = describe(m, states, info, md, 'witness', K) if md is not None else None
    results.update({
        'status': status, 'violation': violation, 'witness': witness,
        'locations': nloc, 'transitions': ntrans, 'state_vars': len(m.vars), 'steps': K,
        'functions_encoded': sorted(m.encoded_funcs), 'instruction_kinds': sorted(m.instr_kinds),
        'queries': queries, 'build_s': round(t_build, 2), 'wall_s': round(time.time() - t0, 2),
        'config': {k: v for k, v in cfg.items() if k != 'fields'},
    })
    if args.out:
        json.dump(results, open(args.out, 'w'), indent=1, default=str)
    print('STATUS', status)
    sys.exit(0 if status == 'ok' else (1 if status == 'violation' else 2))

def describe(m, states, info, mdl, kind, K):
    """Concrete schedule and key state from a model."""
    trace = []
    def ev(t):
        try:
            return mdl.eval(t, model_completion=True)
        except Exception:
            return None
    for k in range(K):
        s = ev(info[k]['sched'])
        en = [z3.is_true(ev(e)) for e in info[k]['enabled']]
        if not any(en):
            trace.append({'step': k, 'note': 'no goroutine enabled', 'pcs': [str(ev(states[k]['T%d.pc' % t])) for t in range(m.nthreads)]})
            break
        t = s.as_long()
        pc = ev(states[k]['T%d.pc' % t]).as_long()
        loc = m.loc_list[pc] if pc < len(m.loc_list) else None
        where = None
        if loc and loc[0][0] == 'ENV':
            trace.append({'step': k, 'goroutine': t, 'loc': pc, 'at': 'environment: ' + loc[0][1], 'op': 'env', 'env': loc[0][1], 'entry': False, 'choices': [], 'choices_used': [], 'fired': None})
            continue
        if loc:
            fr = loc[0][-1]
            f = m.funcs[fr[0]]
            where = '%s block %d instr %d (%s)' % (fr[0].split('/')[-1], fr[1], fr[2], f['blocks'][fr[1]]['instrs'][fr[2]].get('pos', ''))
        chs = [str(ev(z3.BitVec('ch_%d_%d' % (k, i), W))) for i in range(m.nchoice)]
        fired = None
        used = []
        for pi, pth in enumerate(m.summaries.get((t, pc), [])):
            if z3.is_true(ev(z3.Bool('en_%d_%d_%d@%d' % (t, pc, pi, k)))):
                fired = {'path': pi, 'to': pth.finished, 'vis_ops': list(getattr(pth, 'vis_ops', []))}
                for ci, ckind in enumerate(getattr(pth, 'choice_kinds', [])):
                    used.append((ckind, ev(z3.BitVec('ch_%d_%d' % (k, ci), W)).as_long()))
        opname = ''
        entry = False
        if loc:
            ins = f['blocks'][fr[1]]['instrs'][fr[2]]
            opname = ins['op']
            if ins['op'] == 'Call' and ins.get('args') and 'func' in ins['args'][0]:
                opname = 'Call ' + ins['args'][0]['func']
            elif ins['op'] == 'Call' and ins.get('attrs', {}).get('invoke'):
                opname = 'Call invoke:' + ins['attrs']['invoke']
            entry = len(loc[0]) == 1 and fr[1] == 0 and fr[2] == 0
        obs = {}
        nxt_st = states[k + 1]
        for n in ('vW.mu', 'vW.todo.len', 'vW.waiting', 'ghost.woken'):
            if n in nxt_st:
                obs[n] = str(ev(nxt_st[n]))
        pk = [tt for tt in range(m.nthreads) if ('T%d.parked' % tt) in nxt_st and z3.is_true(ev(nxt_st['T%d.parked' % tt]))]
        if pk:
            obs['parked'] = pk
        trace.append({'step': k, 'goroutine': t, 'loc': pc, 'at': where, 'op': opname, 'entry': entry, 'choices': chs, 'choices_used': used, 'fired': fired, 'after': obs})
    final = {}
    last = states[min(len(trace), K)]
    for n in m.order:
        if n in last and (n.startswith('err.') or n.startswith('count.') or n.startswith('ended.') or n.startswith('inv.') or n.startswith('proc.') or n.startswith('child.') or n.startswith('timer.') or n.startswith('ctx.') or n.startswith('wos.') or n in ('inflight', 'returned', 'vW.waiting', 'vW.todo.len', 'spawned')):
            final[n] = str(ev(last[n]))
    if os.environ.get('TSYS_DEBUG'):
        final['ALL'] = {n: str(ev(last[n])) for n in m.order if n in last}
    consts = {n: str(ev(c)) for n, c in m.consts.items()}
    errs = []
    for k, st in enumerate(states):
        for n in m.order:
            if n.startswith('err.') and n in st and z3.is_true(ev(st[n])):
                errs.append((k, n))
        if errs:
            break
    return {'kind': kind, 'errors': [e[1] for e in errs], 'error_step': errs[0][0] if errs else None, 'free_choices': consts, 'schedule': trace, 'state': final}

if __name__ == '__main__':
    main()
