#!/opt/veriftools/pyvenv/bin/python3
"""Check driver for the tsys engine (C09 par.Work, C10 par.Cache, C17 testscript.waitOrStop).

Dumps the go/ssa form of /repo/par (with the harness overlay) afresh, runs the
registered bounded-model-checking configurations in parallel, writes
/verif/evidence/<id>.json, and prints OK / VIOLATION / INCONCLUSIVE.
"""
import json, os, subprocess, sys, tempfile, time, hashlib, itertools
from concurrent.futures import ThreadPoolExecutor

VERIF = os.environ.get('VERIF_DIR', '/verif')
HERE = os.path.join(VERIF, 'tsys')
PY = '/opt/veriftools/pyvenv/bin/python3'

def cache_configs(g, split):
    if not split:
        return [dict(mode='cache', goroutines=g, steps=12 * g, ck='')]
    out = []
    for combo in itertools.combinations_with_replacement(range(4), g):
        # steps: a Do takes at most 11 transitions, a Get at most 4
        steps = sum(11 if c < 2 else 4 for c in combo) + 1
        out.append(dict(mode='cache', goroutines=g, steps=steps, ck=','.join(map(str, combo))))
    return out

# 2 workers x 3 items: the fully symbolic item graph did not finish (safety unknown after 20 min);
# the thorough tier fixes the graph to representative shapes (all schedules per shape)
GRAPHS3 = [
    'I=111,G=000000000',   # three independent initial items
    'I=100,G=011000000',   # fan-out: 0 adds 1 and 2
    'I=100,G=010001000',   # chain 0 -> 1 -> 2
    'I=110,G=001001000',   # join: 0 and 1 both add 2 (duplicate add)
    'I=100,G=010001100',   # cycle 0 -> 1 -> 2 -> 0
    'I=111,G=111111111',   # everything adds everything
]

CONFIGS = {
    'C09': {
        'quick': [dict(mode='work', workers=2, items=2, steps=29), dict(mode='work', workers=1, items=2, steps=22),
                  dict(mode='work', workers=3, items=3, steps=48, graph='I=100,G=011000000')],
        'thorough': [dict(mode='work', workers=2, items=2, steps=29), dict(mode='work', workers=1, items=2, steps=22),
                     dict(mode='work', workers=3, items=2, steps=37), dict(mode='work', workers=3, items=3, steps=48, graph='I=100,G=011000000'),
                     ] + [dict(mode='work', workers=2, items=3, steps=40, graph=g) for g in GRAPHS3],
    },
    'C10': {
        'quick': cache_configs(2, False),
        'thorough': cache_configs(2, False) + cache_configs(3, True),
    },
    'C17': {
        'quick': [dict(mode='wos', steps=18, env='')],
        # thorough: the same system unrolled deeper, plus each of the 8 environments on its own
        'thorough': [dict(mode='wos', steps=26, env='')] + [
            dict(mode='wos', steps=26, env='DEADLINE_SET=%d,EXITS_BY_ITSELF=%d,IGNORES_INTERRUPT=%d' % (a, b, c), expect_witness=(a == 1 and b == 0 and c == 1))
            for a in (0, 1) for b in (0, 1) for c in (0, 1) if (a, b) != (0, 0)],
    },
}

PKG = {'C09': 'par', 'C10': 'par', 'C17': 'testscript'}
SYMX_PART = {'C17'}

_PAR_STUBS = ['sync.Mutex (owner), sync.Cond (Wait = atomically unlock and park; resumes only after a Signal/Broadcast chose it and the mutex is re-acquired; no spurious wake-ups), sync.Map Load/LoadOrStore/Store atomic, sync/atomic loads/stores atomic, math/rand.Intn(n) = any value in [0,n), go = activation of a free goroutine slot; sequentially consistent memory']
_PAR_OUTSIDE = ['more workers/items/goroutines/keys than the bound', 'memory-model effects weaker than sequential consistency (the data-race query shows the plain accesses are ordered)']
STUBS = {
    'C09': _PAR_STUBS, 'C10': _PAR_STUBS,
    'C17': [
        'unbuffered channel: a send completes only while a receiver is parked on the channel; the receiver takes the value in a later transition of its own',
        'select: the solver picks among the ready cases; blocks while none is ready',
        'context: ctx.Done() is ready once the environment process "deadline fires" ran (only if a deadline is set); ctx.Err() is DeadlineExceeded from then on, nil before',
        'process: running until one of the environment processes ends it (exits by itself if the solver made it such a process; exits on a delivered interrupt unless it ignores interrupts; dies from a delivered kill)',
        '(*os.Process).Signal / Kill: deliver the signal unless the process has already been waited for, in which case they return os.ErrProcessDone (the documented contract); a signal to an exited but unreaped process succeeds and has no effect',
        '(*exec.Cmd).Wait: blocks until the process has ended; returns an exit error if it was ended by a signal, otherwise the status the solver chose',
        'time.NewTimer / Stop / C: the timer fires at any moment after it was started unless stopped (untimed: every ordering of the timer against the other events is explored)',
        'error values are an enumeration (nil, context error, ErrProcessDone, exit error)',
        'go = activation of the helper goroutine slot; it ends the transition of the spawner',
    ],
}
OUTSIDE = {
    'C09': _PAR_OUTSIDE, 'C10': _PAR_OUTSIDE,
    'C17': [
        'real-time distances: the model is untimed, it shows the order interrupt -> (grace period timer) -> kill and that every run ends once a deadline is set; that the instants are "two grace periods before the deadline" and "one grace period later" is the arithmetic in RunT, decided separately by the symx harness of this check',
        'a Signal or Kill call failing for a reason other than "process already waited for" (EPERM)',
        'a process that survives SIGKILL (uninterruptible sleep) or detached grandchildren holding the output pipes open (cmd.Wait then waits for them; exec.Cmd.WaitDelay is not used by this code)',
        'background commands (waitOrStop with killDelay -1) and the interrupt sent to them at the end of a script',
        'the scheduling slack of the Go runtime and operating system',
    ],
}

BOUNDS = {
    'C09': {
        'quick': '2 workers (Do(2, f)) x 2 items and 1 worker x 2 items (22 transitions), every item graph (f(i) adds j iff G[i][j], G symbolic) and every set of initial adds; all schedules, rand.Intn picks and Signal wake-up choices up to 29 transitions (the unwinding assertion shows every schedule has finished by then); 3 workers x 3 items on the fan-out graph (item 0 adds items 1 and 2; 48 transitions); besides safety, deadlock and unwinding, a lost-wake-up query: no state with the mutex free in which a runner sleeps while more items are queued than runners have been woken',
        'thorough': 'additionally 3 workers x 2 items (37 transitions) and 2 workers x 3 items over six fixed item graphs (independent, fan-out, chain, join, cycle, complete; 40 transitions each)',
    },
    'C10': {
        'quick': '2 goroutines, each performing one call chosen by the solver from {Do(k0), Do(k1), Get(k0), Get(k1)}, the function returning a value or nil per key (solver choice); all schedules up to 24 transitions; queries: safety, deadlock, Get-never-blocks (a goroutine calling Get is enabled in every state), unwinding, witness, data race',
        'thorough': 'additionally 3 goroutines, case-split over the 20 multisets of call kinds (each case: all schedules up to its transition bound)',
    },
    'C17': {
        'quick': 'one call of waitOrStop(ctx, cmd, killDelay>0): the waiting goroutine, the helper goroutine it starts and five environment processes (deadline fires, process exits by itself, process exits on the interrupt, process dies from the kill, kill-delay timer fires); whether a deadline is set, whether the process exits by itself, whether it ignores the interrupt and its exit status are solver constants; all interleavings and select choices up to 18 transitions (the unwinding assertion shows every run has ended by then). symx part: one script with one foreground exec line through the real RunT/run/cmdExec/exec, Params.Deadline set or not, distance to the deadline any int64 in [-2^40, 2^55] ns, command result and context expiry symbolic',
        'thorough': 'the same system unrolled to 26 transitions, and additionally each of the 8 environments (deadline set x exits by itself x ignores the interrupt) decided on its own',
    },
}

def run_cfg(ssa, cfg, outdir, idx, timeout):
    out = os.path.join(outdir, 'r%d.json' % idx)
    cmd = [PY, os.path.join(HERE, 'bmc.py'), '--ssa', ssa, '--mode', cfg['mode'], '--steps', str(cfg['steps']), '--out', out, '--timeout', str(timeout)]
    if cfg['mode'] == 'work':
        cmd += ['--workers', str(cfg['workers']), '--items', str(cfg['items'])]
        if cfg.get('graph'):
            cmd += ['--graph', cfg['graph']]
    elif cfg['mode'] == 'wos':
        if cfg.get('env'):
            cmd += ['--env', cfg['env']]
        if cfg.get('expect_witness') is False:
            cmd += ['--no-witness']
    else:
        cmd += ['--goroutines', str(cfg['goroutines'])]
        if cfg.get('ck'):
            cmd += ['--ck', cfg['ck']]
    env = dict(os.environ, TSYS_W='5', TSYS_PARALLEL='0')
    t0 = time.time()
    p = subprocess.run(cmd, capture_output=True, text=True, env=env)
    res = None
    try:
        res = json.load(open(out))
    except Exception:
        res = {'status': 'inconclusive', 'detail': 'no result file: ' + (p.stdout + p.stderr)[-800:]}
    res['config'] = cfg
    res['cmd_wall_s'] = round(time.time() - t0, 1)
    res['log'] = p.stdout[-1500:]
    return res

def main():
    if len(sys.argv) < 2:
        print('usage: check.py <C09|C10> [--tier quick|thorough]')
        sys.exit(2)
    pid = sys.argv[1]
    tier = os.environ.get('VERIF_TIER', 'quick')
    if '--tier' in sys.argv:
        tier = sys.argv[sys.argv.index('--tier') + 1]
    seed = int(os.environ.get('VERIF_SEED', '0') or 0)
    t0 = time.time()
    tmp = tempfile.mkdtemp(prefix='verif-tsys-')
    ssa = os.path.join(tmp, 'par.json')
    pkg = PKG[pid]
    env = dict(os.environ, GOFLAGS='-mod=mod', GOPROXY='off', GOSUMDB='off', GOTOOLCHAIN='local')
    p = subprocess.run([os.path.join(VERIF, 'bin', 'symx'), 'ssajson', '--pkg', pkg, '--out', ssa], capture_output=True, text=True, env=env)
    problems = []
    results = []
    if p.returncode != 0 or not os.path.exists(ssa):
        problems.append('cannot build SSA of /repo/' + pkg + ' with the harness overlay: ' + (p.stdout + p.stderr)[-1500:])
    else:
        cfgs = CONFIGS[pid][tier]
        timeout = 600 if tier == 'quick' else 3000
        workers = min(len(cfgs), max(1, (os.cpu_count() or 4) - 2))
        with ThreadPoolExecutor(max_workers=workers) as ex:
            futs = [ex.submit(run_cfg, ssa, c, tmp, i, timeout) for i, c in enumerate(cfgs)]
            results = [f.result() for f in futs]
    # C17 has a second part decided by the symx engine (deadline arithmetic, hand-over, attribution)
    symx_part = None
    symx_rc = 0
    if pid in SYMX_PART:
        try:
            os.remove(os.path.join(VERIF, 'evidence', pid + '.json'))
        except FileNotFoundError:
            pass
        sp = subprocess.run([os.path.join(VERIF, 'bin', 'symx'), 'check', pid, '--tier', tier], capture_output=True, text=True, env=env)
        symx_rc = sp.returncode
        so = sp.stdout + sp.stderr
        for l in so.split('\n'):
            if l.startswith('VIOLATION ') or l.startswith('KNOWN-FINDING') or l.startswith('  harness='):
                print(l)
        try:
            symx_part = json.load(open(os.path.join(VERIF, 'evidence', pid + '.json')))
        except Exception:
            symx_part = None
        if symx_rc == 2 or (symx_rc == 0 and symx_part is None):
            problems.append('symx part: ' + ' '.join(l for l in so.split('\n') if l.startswith('INCONCLUSIVE'))[:1500])
        print('symx part: ' + ' '.join(l for l in so.split('\n') if l.startswith('OK ') or l.startswith('harness ')).strip()[:300])
    violations = []
    states = 0
    transitions = 0
    queries = []
    funcs = set()
    samples = []
    solver_s = 0.0
    for r in results:
        st = r.get('status')
        if st == 'violation':
            violations.append(r)
        elif st != 'ok':
            problems.append('%s: %s %s' % (json.dumps(r['config']), st, r.get('detail', '')) + (' ' + r.get('log', '')[-300:] if st != 'inconclusive' else ''))
        states += r.get('locations', 0) * r.get('steps', 0)
        transitions += r.get('transitions', 0) * r.get('steps', 0)
        for q in r.get('queries', []):
            q = dict(q)
            q['config'] = r['config']
            queries.append(q)
            solver_s += q.get('time_s', 0)
        funcs |= set(r.get('functions_encoded', []))
        if r.get('witness'):
            w = r['witness']
            samples.append({'config': r['config'], 'witness_schedule': [(s.get('goroutine'), s.get('at')) for s in w['schedule'][:40]], 'free_choices': w.get('free_choices'), 'final_state': w.get('state')})
    # report
    exit_code = 0
    vlines = []
    known = load_known(pid)
    nviol = 0
    for r in violations:
        v = r['violation']
        ok, rep = replay(pid, r, tmp)
        text = '%s: %s at step %s, config %s' % (v['kind'], ','.join(v['errors']) or v['kind'], v.get('error_step'), json.dumps(r['config']))
        if not ok:
            problems.append('counterexample did not reproduce on the real code: ' + text + ' :: ' + rep[-600:])
            continue
        k = match_known(known, v)
        if k:
            print('KNOWN-FINDING: property=%s %s' % (pid, k))
            continue
        rf = write_replay(pid, r, rep)
        nviol += 1
        print('VIOLATION property=%s replay=%s' % (pid, rf))
        print('  ' + text)
        vlines.append(text)
    if nviol or symx_rc == 1:
        exit_code = 1
    elif problems:
        exit_code = 2
    ev = {
        'property_id': pid, 'tier': tier, 'seed': seed, 'level': 'model_checking',
        'coverage': {
            'states': max(1, states), 'transitions': max(1, transitions),
            'traces_validated_against_impl': sum(1 for r in violations) ,
            'samples': samples or ['no witness produced'],
            'exhaustive': exit_code == 0,
            'functions_encoded': sorted(funcs),
            'bounds': BOUNDS[pid][tier],
            'queries': queries, 'queries_discharged': len(queries), 'solver_time_s': round(solver_s, 1),
            'solver': 'z3 5.1.0 (python API, QF_BV), one fresh solver per query',
            'rule': 'states = control locations x unrolling depth of the bounded transition system generated from go/ssa; transitions = guarded transitions x depth; every query (safety, deadlock, unwinding assertion, witness, data race) is decided over all schedules and free choices inside the bound',
            'configs': [r['config'] for r in results],
            'stubs': STUBS[pid],
            'outside_claim': OUTSIDE[pid],
        },
        'assumptions': [
            'the tsys translator (bmc.py) implements the go/ssa semantics of the instruction kinds it supports (anything else is reported as unsupported, exit 2)',
            'critical sections are executed atomically (Lipton reduction): a plain access to a Work field while holding Work.mu is fused with the lock-protected region; accesses not protected by the held mutex, atomic operations and sync.Map operations are separate transitions',
            'harness observers (vBegin/vEnd/...) are atomic and fused with the preceding transition',
            'z3 answers are correct; unknown/timeouts make the run inconclusive',
        ],
        'wall_s': round(time.time() - t0, 1), 'violations': nviol,
    }
    if symx_part is not None:
        ev['coverage']['symx_part'] = {'coverage': symx_part.get('coverage'), 'assumptions': symx_part.get('assumptions'), 'wall_s': symx_part.get('wall_s'), 'violations': symx_part.get('violations')}
        ev['violations'] = nviol + int(symx_part.get('violations') or 0)
        ev['coverage']['traces_validated_against_impl'] += int((symx_part.get('coverage') or {}).get('traces_validated_against_impl') or 0)
    if problems:
        ev['coverage']['inconclusive'] = ' | '.join(problems)[:4000]
    if vlines:
        ev['coverage']['violation_list'] = vlines
    os.makedirs(os.path.join(VERIF, 'evidence'), exist_ok=True)
    json.dump(ev, open(os.path.join(VERIF, 'evidence', pid + '.json'), 'w'), indent=1, default=str)
    for r in results:
        qs = ' '.join('%s=%s(%.0fs)' % (q['query'], q['result'], q['time_s']) for q in r.get('queries', []))
        print('config %s: %s [%s] %.0fs' % (json.dumps(r['config']), r.get('status'), qs, r.get('cmd_wall_s', 0)))
    if exit_code == 0:
        print('OK property=%s tier=%s configs=%d queries=%d wall=%.1fs' % (pid, tier, len(results), len(queries), time.time() - t0))
    elif exit_code == 2:
        print('INCONCLUSIVE property=%s %s' % (pid, ' | '.join(problems)[:3000]))
    subprocess.run(['rm', '-rf', tmp])
    sys.exit(exit_code)

def load_known(pid):
    out = []
    try:
        for line in open(os.path.join(VERIF, 'known_findings.txt')):
            line = line.strip()
            if line.startswith('finding:') and ('property=' + pid) in line:
                out.append(line[len('finding:'):].strip())
    except FileNotFoundError:
        pass
    return out

def match_known(known, v):
    for k in known:
        for f in k.split():
            if f.startswith('id=') and f[3:] in v.get('errors', []) + [v['kind']]:
                return k
    return None

def write_replay(pid, r, rep):
    d = os.path.join(VERIF, 'replays')
    os.makedirs(d, exist_ok=True)
    body = json.dumps({'property': pid, 'engine': 'tsys', 'config': r['config'], 'violation': r['violation'], 'native_replay': rep}, indent=1, default=str)
    h = hashlib.sha256(body.encode()).hexdigest()[:12]
    path = os.path.join(d, '%s-%s.json' % (pid, h))
    open(path, 'w').write(body)
    return path

def replay(pid, r, tmp):
    """Replays the counterexample schedule on the real package (see replay.py)."""
    try:
        import replay as rp
    except Exception as e:
        return False, 'replay machinery missing: %s' % e
    return rp.replay(pid, r, tmp)

if __name__ == '__main__':
    sys.path.insert(0, HERE)
    main()
