"""Native replay of tsys counterexamples.

A counterexample is a schedule (which goroutine takes each step, plus the
rand.Intn values and Signal wake-up choices). It is replayed on the REAL
/repo/par/work.go: a scratch copy of that file has its synchronisation
identifiers redirected to a cooperative scheduler shim (vsync) that lets
exactly one goroutine run at a time and hands control over at the same
points the model treats as scheduling points (Lock, Cond.Wait, sync.Map and
atomic operations, goroutine start, the harness's yield). The shim follows
the model's schedule; observers equivalent to the model's error flags decide
whether the violation shows on the real code. Only reproduced violations
are reported.
"""
import json, os, re, subprocess, tempfile

VSYNC = r'''
package vsync

import (
	"fmt"
	"sync"
)

// One goroutine runs at a time; control changes hands only at yield points.

type gor struct {
	id      int
	wake    chan struct{}
	first   chan struct{} // signalled when the goroutine reaches its first scheduling point
	started bool
	ready   func() bool
	done    bool
}

// handoff tells whoever is waiting for g (its spawner the first time, the
// scheduler afterwards) that g stopped running.
func (g *gor) handoff() {
	if !g.started {
		g.started = true
		g.first <- struct{}{}
		return
	}
	back <- struct{}{}
}

var (
	mu       sync.Mutex // protects the tables below against the Go memory model only
	gs       []*gor
	cur      *gor
	back     = make(chan struct{})
	Sched    []int
	pos      int
	Choices  = map[int][]int{}
	Mismatch int
	Deadlock bool
	Steps    int
	Log      []string
	Woken    int    // goroutines taken off a Cond by Signal/Broadcast that have not resumed yet
	AfterStep func() // called by the scheduler after every step (state observers)
)

func current() *gor { return cur }

func yield(kind string, ready func() bool) {
	g := cur
	g.ready = ready
	g.handoff()
	<-g.wake
}

func choice(def int) int {
	g := cur
	q := Choices[g.id]
	if len(q) == 0 {
		return def
	}
	Choices[g.id] = q[1:]
	return q[0]
}

// Go starts a logical goroutine. It runs at once up to its first scheduling
// point (code before that touches no shared state), while the spawner
// waits; from then on it runs only when the scheduler picks it. This matches
// the model, whose first transition of a goroutine ends at (and includes)
// its first visible operation.
func Go(f func()) {
	g := &gor{id: len(gs), wake: make(chan struct{}), first: make(chan struct{})}
	g.ready = func() bool { return true }
	gs = append(gs, g)
	spawner := cur
	cur = g
	go func() {
		f()
		g.done = true
		g.handoff()
	}()
	<-g.first // the child reached its first scheduling point (or finished)
	cur = spawner
}

// Run executes main as goroutine 0 under the schedule.
func Run(main func()) { RunAll([]func(){main}) }

// RunAll starts fs as goroutines 0..n-1 and runs them under the schedule.
func RunAll(fs []func()) {
	for _, f := range fs {
		Go(f)
	}
	for {
		var en []*gor
		alldone := true
		for _, g := range gs {
			if g.done {
				continue
			}
			alldone = false
			if g.ready() {
				en = append(en, g)
			}
		}
		if alldone {
			return
		}
		if len(en) == 0 {
			Deadlock = true
			return
		}
		var pick *gor
		for pos < len(Sched) && pick == nil {
			want := Sched[pos]
			pos++
			for _, g := range en {
				if g.id == want {
					pick = g
				}
			}
			if pick == nil {
				Mismatch++
			}
		}
		if pick == nil {
			pick = en[0]
		}
		Steps++
		if Steps > 100000 {
			Log = append(Log, "step limit")
			Deadlock = true
			return
		}
		cur = pick
		pick.wake <- struct{}{}
		<-back
		if AfterStep != nil {
			AfterStep()
		}
	}
}

func Yield() { yield("yield", func() bool { return true }) }

// Blocked reports whether goroutine id exists, has not finished and cannot run now.
func Blocked(id int) bool {
	if id < 0 || id >= len(gs) {
		return false
	}
	g := gs[id]
	return !g.done && !g.ready()
}

type Locker interface {
	Lock()
	Unlock()
}

type Mutex struct{ owner *gor }

func (m *Mutex) Lock() {
	yield("lock", func() bool { return m.owner == nil })
	if m.owner != nil {
		panic("vsync: scheduled a goroutine blocked on a mutex")
	}
	m.owner = cur
}

// Free reports whether nobody holds the mutex.
func (m *Mutex) Free() bool { return m.owner == nil }

func (m *Mutex) Unlock() {
	if m.owner != cur {
		panic("sync: unlock of unlocked mutex")
	}
	m.owner = nil
}

type Cond struct {
	L      Locker
	parked []*gor
}

func (c *Cond) Wait() {
	g := cur
	c.L.Unlock()
	c.parked = append(c.parked, g)
	mtx := c.L.(*Mutex)
	yield("wait", func() bool {
		for _, p := range c.parked {
			if p == g {
				return false
			}
		}
		return mtx.owner == nil
	})
	mtx.owner = g
	Woken--
}

// Parked is the number of goroutines sleeping on the condition variable.
func (c *Cond) Parked() int { return len(c.parked) }

func (c *Cond) Signal() {
	if len(c.parked) == 0 {
		return
	}
	want := choice(-1)
	idx := 0
	for i, p := range c.parked {
		if p.id == want {
			idx = i
		}
	}
	c.parked = append(c.parked[:idx:idx], c.parked[idx+1:]...)
	Woken++
}

func (c *Cond) Broadcast() { Woken += len(c.parked); c.parked = nil }

func Intn(n int) int {
	if n <= 0 {
		panic("invalid argument to Intn")
	}
	v := choice(0)
	if v < 0 || v >= n {
		v = 0
	}
	return v
}

type Map struct{ m map[any]any }

func (m *Map) Load(k any) (any, bool) {
	Yield()
	v, ok := m.m[k]
	return v, ok
}

func (m *Map) Store(k, v any) {
	Yield()
	if m.m == nil {
		m.m = map[any]any{}
	}
	m.m[k] = v
}

func (m *Map) LoadOrStore(k, v any) (any, bool) {
	Yield()
	if m.m == nil {
		m.m = map[any]any{}
	}
	if old, ok := m.m[k]; ok {
		return old, true
	}
	m.m[k] = v
	return v, false
}

func LoadUint32(p *uint32) uint32 { Yield(); return *p }
func StoreUint32(p *uint32, v uint32) { Yield(); *p = v }

var _ = fmt.Sprint
'''

WORK_TEST = r'''
package par

import (
	"fmt"
	"testing"

	"replay/vsync"
)

func TestReplay(t *testing.T) {
	n := %(workers)d
	items := %(items)d
	G := %(G)s
	I := %(I)s
	vsync.Sched = %(sched)s
	vsync.Choices = %(choices)s
	var w Work
	count := make([]int, items)
	ended := make([]int, items)
	inflight := 0
	var errs []string
	returned := false
	f := func(item any) {
		i := item.(int)
		if count[i] != 0 {
			errs = append(errs, "item-processed-twice")
		}
		count[i]++
		inflight++
		if inflight > n {
			errs = append(errs, "more-than-n-calls-in-progress")
		}
		vsync.Yield()
		for j := 0; j < items; j++ {
			if G[i][j] {
				w.Add(j)
			}
		}
		ended[i]++
		inflight--
	}
	lost := false
	vsync.AfterStep = func() {
		// lost wake-up: the mutex is free, a runner sleeps, and more items are queued than runners are on their way
		if !lost && w.mu.Free() && w.wait.Parked() > 0 && len(w.todo) > vsync.Woken {
			lost = true
			errs = append(errs, "lost-wakeup")
		}
	}
	func() {
		defer func() {
			if r := recover(); r != nil {
				errs = append(errs, fmt.Sprint("panic: ", r))
			}
		}()
		vsync.Run(func() {
			for j := 0; j < items; j++ {
				if I[j] {
					w.Add(j)
				}
			}
			w.Do(n, f)
			returned = true
			for j := 0; j < items; j++ {
				if w.added[j] && ended[j] != 1 {
					errs = append(errs, "returned-before-all-items-done")
				}
			}
			if inflight != 0 {
				errs = append(errs, "returned-with-calls-in-progress")
			}
			if len(w.todo) != 0 {
				errs = append(errs, "returned-with-work-left")
			}
		})
	}()
	if vsync.Deadlock {
		errs = append(errs, "deadlock")
	}
	fmt.Printf("REPLAY mismatches=%%d steps=%%d returned=%%v errors=%%v\n", vsync.Mismatch, vsync.Steps, returned, errs)
}
'''

def go_lit(x):
    if isinstance(x, bool):
        return 'true' if x else 'false'
    if isinstance(x, int):
        return str(x)
    if isinstance(x, list):
        if x and isinstance(x[0], list):
            return '[][]bool{' + ', '.join('{' + ', '.join(go_lit(b) for b in r) + '}' for r in x) + '}'
        if x and isinstance(x[0], bool):
            return '[]bool{' + ', '.join(go_lit(b) for b in x) + '}'
        return '[]int{' + ', '.join(str(i) for i in x) + '}'
    if isinstance(x, dict):
        return 'map[int][]int{' + ', '.join('%d: %s' % (k, go_lit(v)) for k, v in x.items()) + '}'
    raise ValueError(x)

def rewrite_work(src):
    """Redirect the synchronisation identifiers of par/work.go to the shim."""
    out = src
    out = re.sub(r'"math/rand"\n', '', out)
    out = re.sub(r'"sync/atomic"\n', '', out)
    out = re.sub(r'"sync"\n', '"replay/vsync"\n', out)
    out = out.replace('sync.Mutex', 'vsync.Mutex').replace('sync.Cond', 'vsync.Cond').replace('sync.Map', 'vsync.Map')
    out = out.replace('atomic.LoadUint32(', 'vsync.LoadUint32(').replace('atomic.StoreUint32(', 'vsync.StoreUint32(')
    out = out.replace('rand.Intn(', 'vsync.Intn(')
    out = re.sub(r'\bgo (\w+(?:\.\w+)*)\(\)', r'vsync.Go(\1)', out)
    # plain accesses of cacheEntry.result are scheduling points of the model (they are not ordered
    # by the entry mutex for every reader): stop before them as well
    lines = []
    for l in out.split('\n'):
        st = l.strip()
        if re.search(r'\be\.result\b', st) and not st.startswith(('for ', '}', '//', 'result ')) and (st.startswith('if ') or not st.endswith('{')):
            m = re.match(r'^(\s*)e\.result = (.+)$', l)
            if m and '(' in m.group(2):
                # e.result = f(): evaluate first, stop before the store
                lines.append('%svResult := %s' % (m.group(1), m.group(2)))
                lines.append('%svsync.Yield()' % m.group(1))
                lines.append('%se.result = vResult' % m.group(1))
                continue
            lines.append(re.match(r'^\s*', l).group(0) + 'vsync.Yield()')
        lines.append(l)
    return '\n'.join(lines)

INSTRUMENTED_CALLS = ('(*sync.Mutex).Lock', '(*sync.Cond).Wait', '(*sync.Map).Load', '(*sync.Map).LoadOrStore', '(*sync.Map).Store',
                      'sync/atomic.LoadUint32', 'sync/atomic.StoreUint32', 'vYield')

# visible operations of the model at which the shim has a yield point (before the operation)
NATIVE_YIELD_OPS = ('lock', 'wait-resume', 'map.load', 'map.loadorstore', 'map.store', 'atomic.load', 'atomic.store', 'yield', 'load', 'store')

def schedule_for_shim(v, mode=None):
    """One scheduler pick per visible operation a step of the model performs: the shim stops a
    goroutine before each of these operations and performs it when the goroutine is picked."""
    sched = []
    choices = {}
    for s in v['schedule']:
        if 'goroutine' not in s or s.get('goroutine') is None:
            break
        g = s['goroutine']
        for kind, val in s.get('choices_used', []):
            choices.setdefault(g, []).append(val)
        fired = s.get('fired') or {}
        for op in fired.get('vis_ops', []):
            # plain accesses are stopping points of the shim only where the source was instrumented
            # (cacheEntry.result); Work's few unlocked field accesses in Do are not
            if op in ('load', 'store') and mode != 'cache':
                continue
            if op in NATIVE_YIELD_OPS:
                sched.append(g)
    return sched, choices

def replay(pid, r, tmp):
    repo = os.environ.get('VERIF_REPO', '/repo')
    v = r['violation']
    cfg = r['config']
    if cfg.get('mode') == 'wos':
        import replay_wos
        return replay_wos.replay_wos(pid, r, tmp)
    d = tempfile.mkdtemp(prefix='verif-replay-')
    try:
        os.makedirs(os.path.join(d, 'par'))
        os.makedirs(os.path.join(d, 'vsync'))
        open(os.path.join(d, 'go.mod'), 'w').write('module replay\n\ngo 1.23\n')
        open(os.path.join(d, 'vsync', 'vsync.go'), 'w').write(VSYNC)
        src = open(os.path.join(repo, 'par', 'work.go')).read()
        open(os.path.join(d, 'par', 'work.go'), 'w').write(rewrite_work(src))
        sched, choices = schedule_for_shim(v, cfg.get('mode'))
        fc = v.get('free_choices', {})
        if cfg['mode'] == 'work':
            n = cfg['items']
            G = [[fc.get('G_%d_%d' % (i, j)) == 'True' for j in range(n)] for i in range(n)]
            I = [fc.get('I_%d' % j) == 'True' for j in range(n)]
            test = WORK_TEST % dict(workers=cfg['workers'], items=n, G=go_lit(G), I=go_lit(I), sched=go_lit(sched), choices=go_lit(choices))
        else:
            g = cfg['goroutines']
            kinds = [int(fc.get('CK_%d' % t, '0')) for t in range(g)]
            test = cache_test(kinds, sched, choices, [fc.get('NR_%d' % k) == 'True' for k in range(2)])
        open(os.path.join(d, 'par', 'replay_test.go'), 'w').write(test)
        env = dict(os.environ, GOFLAGS='-mod=mod', GOPROXY='off', GOSUMDB='off', GOTOOLCHAIN='local')
        p = subprocess.run(['go', 'test', '-count=1', '-vet=off', '-timeout', '60s', '-run', 'TestReplay', '-v', './par'], cwd=d, capture_output=True, text=True, env=env)
        out = p.stdout + p.stderr
        line = [l for l in out.split('\n') if l.startswith('REPLAY ')]
        if not line:
            return False, 'native replay produced no result: ' + out[-1500:]
        errs = line[0].split('errors=', 1)[1]
        reproduced = errs.strip() not in ('[]', '')
        return reproduced, line[0]
    finally:
        subprocess.run(['rm', '-rf', d])

def cache_test(kinds, sched, choices, nilres=(False, False)):
    return r'''
package par

import (
	"fmt"
	"testing"

	"replay/vsync"
)

func TestReplay(t *testing.T) {
	kinds := %s
	vsync.Sched = %s
	vsync.Choices = %s
	nilres := %s
	var c Cache
	inv := map[int]int{}
	cdone := map[int]bool{}
	var errs []string
	compute := func(k int) any {
		if inv[k] != 0 {
			errs = append(errs, "function-invoked-twice-for-a-key")
		}
		inv[k]++
		n := inv[k]
		vsync.Yield()
		cdone[k] = true
		if nilres[k] {
			return nil
		}
		return k*8 + n
	}
	want := func(k int) any {
		if nilres[k] {
			return nil
		}
		return k*8 + 1
	}
	body := func(g int) func() {
		return func() {
			switch kinds[g] {
			case 0, 1:
				k := kinds[g]
				v := c.Do(k, func() any { return compute(k) })
				if !cdone[k] {
					errs = append(errs, "do-returned-before-function-completed")
				}
				if v != want(k) {
					errs = append(errs, "do-returned-wrong-value")
				}
			case 2, 3:
				k := kinds[g] - 2
				v := c.Get(k)
				if v != nil && v != want(k) {
					errs = append(errs, "get-returned-foreign-value")
				}
			}
		}
	}
	getBlocked := false
	vsync.AfterStep = func() {
		// Get never blocks: a goroutine whose call is a Get can always run
		for g := range kinds {
			if kinds[g] >= 2 && vsync.Blocked(g) && !getBlocked {
				getBlocked = true
				errs = append(errs, "get-blocks")
			}
		}
	}
	func() {
		defer func() {
			if r := recover(); r != nil {
				errs = append(errs, fmt.Sprint("panic: ", r))
			}
		}()
		var fs []func()
		for g := range kinds {
			fs = append(fs, body(g))
		}
		vsync.RunAll(fs)
	}()
	if vsync.Deadlock {
		errs = append(errs, "deadlock")
	}
	fmt.Printf("REPLAY mismatches=%%d steps=%%d returned=true errors=%%v\n", vsync.Mismatch, vsync.Steps, errs)
}
''' % (go_lit(kinds), go_lit(sched), go_lit(choices), go_lit(list(nilres)))
