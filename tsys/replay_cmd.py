#!/opt/veriftools/pyvenv/bin/python3
"""Replays a tsys counterexample file against the real /repo/par/work.go."""
import json, os, sys, tempfile
sys.path.insert(0, os.path.dirname(os.path.abspath(__file__)))
import replay as rp

def main():
    d = json.load(open(sys.argv[1]))
    r = {'config': d['config'], 'violation': d['violation']}
    ok, out = rp.replay(d['property'], r, tempfile.gettempdir())
    print('native replay (cooperative scheduler shim following the recorded schedule):')
    print('  ' + out)
    if ok:
        print('VIOLATION property=%s replay=%s' % (d['property'], sys.argv[1]))
        sys.exit(1)
    print('violation did not reproduce')
    sys.exit(0)

main()
