"""Native confirmation of a tsys counterexample for waitOrStop (C17).

The model's counterexample names an error flag (or a deadlock) and the
environment constants under which it occurs. The real waitOrStop of /repo's
working tree is then run, through `go test -overlay`, against real child
processes (a small helper program built here) that block and honour the
interrupt, block and ignore it, exit by themselves before / just after the
deadline, with and without a deadline; the same predicates the model's flags
express are evaluated on what actually happened (error returned, time of the
SIGQUIT as logged by the child, how the child ended, whether waitOrStop
returned at all). The violation is reported only if the real code shows the
same flag in one of the scenarios. The interleaving itself is not forced
step by step: timing decides it, as it does for users.
"""
import json, os, subprocess, tempfile

HELPER = r'''
package main

import (
	"fmt"
	"os"
	"os/signal"
	"strconv"
	"strings"
	"syscall"
	"time"
)

func logf(path, format string, args ...any) {
	f, err := os.OpenFile(path, os.O_APPEND|os.O_CREATE|os.O_WRONLY, 0o644)
	if err != nil {
		return
	}
	fmt.Fprintf(f, format, args...)
	f.Close()
}

func main() {
	mode, logp := os.Args[1], os.Args[2]
	c := make(chan os.Signal, 4)
	signal.Notify(c, syscall.SIGQUIT, syscall.SIGINT) // "ignore" means: survives every catchable signal
	logf(logp, "START %d\n", time.Now().UnixNano())
	var exitAfter <-chan time.Time
	code := 0
	honour := mode == "honour"
	if strings.HasPrefix(mode, "exit:") {
		parts := strings.Split(mode, ":")
		ms, _ := strconv.Atoi(parts[1])
		code, _ = strconv.Atoi(parts[2])
		exitAfter = time.After(time.Duration(ms) * time.Millisecond)
	}
	hard := time.After(20 * time.Second) // never outlive the test
	for {
		select {
		case <-c:
			logf(logp, "QUIT %d\n", time.Now().UnixNano())
			if honour {
				os.Exit(7)
			}
		case <-exitAfter:
			os.Exit(code)
		case <-hard:
			os.Exit(9)
		}
	}
}
'''

TEST = r'''
package testscript

import (
	"context"
	"errors"
	"fmt"
	"os"
	"os/exec"
	"strconv"
	"strings"
	"sync"
	"syscall"
	"testing"
	"time"
)

func ms(d time.Duration) int64 {
	if d < 0 {
		return -1
	}
	return d.Milliseconds()
}

func TestWosReplay(t *testing.T) {
	helper := os.Getenv("WOS_HELPER_BIN")
	const (
		deadline  = 400 * time.Millisecond
		killDelay = 300 * time.Millisecond
		slack     = 90 * time.Millisecond
	)
	type scen struct {
		name     string
		mode     string
		deadline bool
		wantCode int // expected exit code when nothing is signalled (-1: does not apply)
	}
	scens := []scen{
		{"blocks-honours-interrupt", "honour", true, -1},
		{"blocks-ignores-interrupt", "ignore", true, -1},
		{"exits-early-status-0", "exit:100:0", true, 0},
		{"exits-early-status-3", "exit:100:3", true, 3},
		{"no-deadline-exits-status-0", "exit:200:0", false, 0},
		{"exits-by-itself-inside-grace-period", "exit:550:0", true, -1},
	}
	var mu sync.Mutex
	all := map[string]bool{}
	var wg sync.WaitGroup
	for _, sc := range scens {
		sc := sc
		wg.Add(1)
		go func() {
			defer wg.Done()
			var flags []string
			add := func(f string) { flags = append(flags, f) }
			logp := t.TempDir() + "/log"
			cmd := exec.Command(helper, sc.mode, logp)
			ctx := context.Background()
			var cancel context.CancelFunc = func() {}
			if err := cmd.Start(); err != nil {
				t.Errorf("start: %v", err)
				return
			}
			start := time.Now()
			if sc.deadline {
				ctx, cancel = context.WithTimeout(ctx, deadline)
			}
			defer cancel()
			type out struct {
				err      error
				panicked any
			}
			done := make(chan out, 1)
			go func() {
				var o out
				defer func() {
					o.panicked = recover()
					done <- o
				}()
				o.err = waitOrStop(ctx, cmd, killDelay)
			}()
			var o out
			returned := true
			select {
			case o = <-done:
			case <-time.After(deadline + killDelay + 2500*time.Millisecond):
				returned = false
			}
			elapsed := time.Since(start)
			ctxDone := ctx.Err() != nil
			waited := cmd.ProcessState != nil
			if !returned {
				add("deadlock")
				cmd.Process.Kill()
				select {
				case <-done:
				case <-time.After(3 * time.Second):
				}
			} else {
				if o.panicked != nil {
					add("panic")
				}
				if !waited {
					add("returned-while-the-process-is-still-running")
					add("returned-without-waiting-for-the-process")
					cmd.Process.Kill()
					cmd.Wait()
				}
			}
			quitAt := time.Duration(-1)
			var startNs int64
			if b, err := os.ReadFile(logp); err == nil {
				for _, l := range strings.Split(string(b), "\n") {
					f := strings.Fields(l)
					if len(f) == 2 && f[0] == "START" {
						startNs, _ = strconv.ParseInt(f[1], 10, 64)
					}
					if len(f) == 2 && f[0] == "QUIT" && quitAt < 0 {
						ns, _ := strconv.ParseInt(f[1], 10, 64)
						quitAt = time.Unix(0, ns).Sub(start)
					}
				}
			}
			_ = startNs
			killed := false
			if ps := cmd.ProcessState; ps != nil {
				if ws, ok := ps.Sys().(syscall.WaitStatus); ok && ws.Signaled() && ws.Signal() == syscall.SIGKILL {
					killed = true
				}
			}
			if returned && !killed || !returned {
				// (a kill issued by this test after a hang does not count)
			}
			if !returned {
				killed = false
			}
			signalled := quitAt >= 0 || killed
			if returned && o.panicked == nil {
				if signalled && o.err == nil {
					add("command-stopped-by-the-deadline-reported-as-success")
				}
				if !signalled && sc.wantCode >= 0 {
					got := 0
					var ee *exec.ExitError
					if errors.As(o.err, &ee) {
						got = ee.ExitCode()
					} else if o.err != nil {
						got = -2
					}
					if got != sc.wantCode {
						add("result-differs-from-wait-although-no-signal-was-delivered")
					}
				}
				if errors.Is(o.err, context.DeadlineExceeded) && (!sc.deadline || !ctxDone || elapsed < deadline-slack) {
					add("timed-out-reported-before-the-deadline")
				}
			}
			if quitAt >= 0 && (!sc.deadline || quitAt < deadline-slack) {
				add("signal-sent-before-the-deadline")
			}
			if killed {
				switch {
				case !sc.deadline || elapsed < deadline-slack:
					add("kill-sent-before-the-deadline")
				case elapsed < deadline+killDelay-slack:
					// (a SIGQUIT followed at once by SIGKILL may never be logged by the child)
					add("kill-before-the-grace-period-elapsed")
				case quitAt < 0:
					add("kill-without-interrupt-first")
				}
			}
			mu.Lock()
			for _, f := range flags {
				all[f] = true
			}
			fmt.Printf("SCENARIO %s returned=%v err=%v elapsed=%dms quit_at=%dms killed=%v flags=%v\n", sc.name, returned, o.err, elapsed.Milliseconds(), ms(quitAt), killed, flags)
			mu.Unlock()
		}()
	}
	wg.Wait()
	var fl []string
	for f := range all {
		fl = append(fl, f)
	}
	fmt.Printf("REPLAY errors=%v\n", fl)
}
'''


# ---------------------------------------------------------------------------
# Schedule-driven replay: the text of waitOrStop is taken from /repo's working
# tree and compiled, unchanged, against stand-ins for context, os/exec, os and
# time whose operations wait for their turn in the counterexample's schedule.
# Environment events (deadline, process exit, timer) are applied by the
# controller at the step the schedule says. Channel operations and select are
# the real Go ones.

def extract_func(src, name):
    i = src.index('\nfunc %s(' % name)
    j = src.index('{', i)
    depth = 0
    k = j
    while True:
        c = src[k]
        if c == '{':
            depth += 1
        elif c == '}':
            depth -= 1
            if depth == 0:
                break
        k += 1
    return src[i + 1:k + 1]

CTL = r"""
package ctl

import (
	"sync"
	"time"
)

var (
	Mu       sync.Mutex
	CtxDone  = make(chan struct{})
	CtxFired bool
	Running  = true
	Waited, Interrupted, Killed, SigDeath, Hit, SigOK, IntSent, KillSent bool
	TimerC                                                          = make(chan time.Time, 1)
	TimerStarted, TimerFired, TimerStopped                          bool
	WaitErrCode                                                     int // 0 nil, 4 exit error
	Flags                                                           []string
	Mismatch                                                        []string
	FreeRun                                                         bool
	ChildFire                                                       = make(chan struct{})
	ChildCreated, ChildFired, ChildCancelled                        bool
	gates                                                           = map[string]chan chan struct{}{}
	// environment constants of the counterexample
	DeadlineSet, ExitsByItself, IgnoresInterrupt, SelfFails bool
)

func Flag(f string) { Flags = append(Flags, f) }

func gate(op string) chan chan struct{} {
	Mu.Lock()
	defer Mu.Unlock()
	g := gates[op]
	if g == nil {
		g = make(chan chan struct{})
		gates[op] = g
	}
	return g
}

// Enter blocks the calling goroutine until the schedule reaches this
// operation; the returned function marks its completion.
func Enter(op string) func() {
	ack := <-gate(op)
	return func() { close(ack) }
}

// Allow lets exactly one pending (or arriving) operation of this kind run.
func Allow(op string, wait time.Duration) bool {
	ack := make(chan struct{})
	select {
	case gate(op) <- ack:
		<-ack
		return true
	case <-time.After(wait):
		return false
	}
}

func Env(name string) {
	Mu.Lock()
	defer Mu.Unlock()
	switch name {
	case "deadline-fires":
		if !CtxFired {
			CtxFired = true
			close(CtxDone)
		}
	case "process-exits-by-itself":
		Running = false
	case "process-exits-on-interrupt", "process-dies-from-kill":
		if Running {
			SigDeath = true
		}
		Running = false
	case "timer-fires":
		if TimerStarted && !TimerFired {
			TimerFired = true
			TimerC <- time.Now()
		}
	case "derived-timeout-fires":
		if ChildCreated && !ChildFired {
			ChildFired = true
			close(ChildFire)
		}
	}
}

// EnabledEnv returns an environment event that can still happen.
func EnabledEnv() string {
	Mu.Lock()
	defer Mu.Unlock()
	switch {
	case DeadlineSet && !CtxFired:
		return "deadline-fires"
	case Running && Killed:
		return "process-dies-from-kill"
	case Running && Interrupted && !IgnoresInterrupt:
		return "process-exits-on-interrupt"
	case TimerStarted && !TimerFired && !TimerStopped:
		return "timer-fires"
	case ChildCreated && !ChildFired && !ChildCancelled:
		return "derived-timeout-fires"
	case Running && ExitsByItself:
		return "process-exits-by-itself"
	}
	return ""
}
"""

FAKE_CONTEXT = r"""
package context

import (
	"errors"
	"sync"
	realtime "time"

	"wosr/ctl"
)

type Context interface {
	Done() <-chan struct{}
	Err() error
}

type CancelFunc func()

var (
	DeadlineExceeded = errors.New("context deadline exceeded")
	Canceled         = errors.New("context canceled")
)

// C is the per-run context.
type C struct{}

func (C) Done() <-chan struct{} { return ctl.CtxDone }
func (C) Err() error {
	done := ctl.Enter("Err")
	defer done()
	ctl.Mu.Lock()
	defer ctl.Mu.Unlock()
	if ctl.CtxFired {
		return DeadlineExceeded
	}
	return nil
}

type bg struct{}

func (bg) Done() <-chan struct{} { return nil }
func (bg) Err() error {
	done := ctl.Enter("Err")
	defer done()
	return nil
}

func Background() Context { return bg{} }
func TODO() Context       { return bg{} }

type child struct {
	parent Context
	done   chan struct{}
	cancel chan struct{}
	once   sync.Once
}

func (c *child) Done() <-chan struct{} { return c.done }
func (c *child) Err() error {
	done := ctl.Enter("Err")
	defer done()
	ctl.Mu.Lock()
	defer ctl.Mu.Unlock()
	_, run := c.parent.(C)
	switch {
	case ctl.ChildFired || run && ctl.CtxFired:
		return DeadlineExceeded
	case ctl.ChildCancelled:
		return Canceled
	}
	return nil
}

// WithTimeout: done when the parent is done, when the environment fires the
// derived timeout, or when cancelled.
func WithTimeout(parent Context, d realtime.Duration) (Context, CancelFunc) {
	ctl.Mu.Lock()
	if ctl.ChildCreated {
		ctl.Flag("second-derived-context")
	}
	if d <= 0 {
		ctl.Flag("timer-with-nonpositive-delay")
	}
	ctl.ChildCreated = true
	ctl.Mu.Unlock()
	c := &child{parent: parent, done: make(chan struct{}), cancel: make(chan struct{})}
	go func() {
		select {
		case <-parent.Done():
		case <-ctl.ChildFire:
		case <-c.cancel:
		}
		close(c.done)
	}()
	return c, func() {
		c.once.Do(func() {
			ctl.Mu.Lock()
			ctl.ChildCancelled = true
			ctl.Mu.Unlock()
			close(c.cancel)
		})
	}
}
"""

FAKE_OS = r"""
package os

import (
	realos "os"

	"wosr/ctl"
)

type Signal = realos.Signal

var (
	Kill           = realos.Kill
	Interrupt      = realos.Interrupt
	ErrProcessDone = realos.ErrProcessDone
)

type Process struct{ Pid int }

func deliver(kill bool) error {
	ctl.Mu.Lock()
	defer ctl.Mu.Unlock()
	if !ctl.CtxFired {
		if kill {
			ctl.Flag("kill-sent-before-the-deadline")
		} else {
			ctl.Flag("signal-sent-before-the-deadline")
		}
	}
	if kill {
		if !ctl.IntSent {
			ctl.Flag("kill-without-interrupt-first")
		}
		if !ctl.TimerFired && !ctl.ChildFired {
			ctl.Flag("kill-before-the-grace-period-elapsed")
		}
		ctl.KillSent = true
	} else {
		ctl.IntSent = true
	}
	if ctl.Waited {
		return ErrProcessDone
	}
	if ctl.Running {
		ctl.Hit = true
	}
	if kill {
		ctl.Killed = true
	} else {
		ctl.Interrupted = true
		ctl.SigOK = true
	}
	return nil
}

func (p *Process) Signal(sig Signal) error {
	done := ctl.Enter("Signal")
	defer done()
	return deliver(sig == Kill)
}

func (p *Process) Kill() error {
	done := ctl.Enter("Kill")
	defer done()
	return deliver(true)
}
"""

FAKE_EXEC = r"""
package exec

import (
	"errors"

	"wosr/ctl"
	"wosr/fake/os"
)

type Cmd struct{ Process *os.Process }

var ErrExit = errors.New("exit status / signal (stand-in for *exec.ExitError)")

func (c *Cmd) Wait() error {
	done := ctl.Enter("Wait")
	defer done()
	ctl.Mu.Lock()
	defer ctl.Mu.Unlock()
	if ctl.Running {
		ctl.Mismatch = append(ctl.Mismatch, "Wait scheduled while the process is running")
	}
	ctl.Waited = true
	if ctl.SigDeath || ctl.SelfFails {
		ctl.WaitErrCode = 4
		return ErrExit
	}
	return nil
}
"""

FAKE_TIME = r"""
package time

import (
	realtime "time"

	"wosr/ctl"
)

type Duration = realtime.Duration
type Time = realtime.Time

const (
	Millisecond = realtime.Millisecond
	Second      = realtime.Second
)

type Timer struct{ C <-chan Time }

func NewTimer(d Duration) *Timer {
	ctl.Mu.Lock()
	defer ctl.Mu.Unlock()
	if ctl.TimerStarted {
		ctl.Flag("second-timer")
	}
	if d <= 0 {
		ctl.Flag("timer-with-nonpositive-delay")
	}
	ctl.TimerStarted = true
	return &Timer{C: ctl.TimerC}
}

func (t *Timer) Stop() bool {
	ctl.Mu.Lock()
	defer ctl.Mu.Unlock()
	ctl.TimerStopped = true
	return !ctl.TimerFired
}
"""

WOS_FILE_HEAD = r"""
package wos

import (
	"runtime"
	"syscall"

	"wosr/fake/context"
	"wosr/fake/exec"
	"wosr/fake/os"
	"wosr/fake/time"
)

var (
	_ = runtime.GOOS
	_ = syscall.SIGQUIT
	_ os.Signal
	_ time.Duration
	_ context.Context
	_ *exec.Cmd
)

"""

WOS_TEST = r"""
package wos

import (
	"fmt"
	"testing"
	realtime "time"

	"wosr/ctl"
	"wosr/fake/context"
	"wosr/fake/exec"
	"wosr/fake/os"
)

func TestReplay(t *testing.T) {
	sched := %(sched)s
	ctl.DeadlineSet, ctl.ExitsByItself, ctl.IgnoresInterrupt, ctl.SelfFails = %(dl)s, %(self)s, %(ign)s, %(fails)s
	type out struct {
		err      error
		panicked any
	}
	done := make(chan out, 1)
	go func() {
		var o out
		defer func() {
			o.panicked = recover()
			done <- o
		}()
		o.err = waitOrStop(context.C{}, &exec.Cmd{Process: &os.Process{Pid: 1}}, %(kd)d*realtime.Millisecond)
	}()
	returned := false
	var o out
	settle := func() {
		select {
		case o = <-done:
			returned = true
		case <-realtime.After(4 * realtime.Millisecond):
		}
	}
	for _, st := range sched {
		if returned {
			break
		}
		switch st[0] {
		case "env":
			ctl.Env(st[1])
		case "op":
			if !ctl.Allow(st[1], 1500*realtime.Millisecond) {
				ctl.Mismatch = append(ctl.Mismatch, "no goroutine reached "+st[1])
			}
		}
		settle()
	}
	// the schedule is over: a fair environment and scheduler let everything that can still happen happen
	deadline := realtime.Now().Add(2 * realtime.Second)
	for !returned && realtime.Now().Before(deadline) {
		if e := ctl.EnabledEnv(); e != "" {
			ctl.Env(e)
		}
		for _, op := range []string{"Signal", "Kill", "Wait", "Err"} {
			if op == "Wait" {
				ctl.Mu.Lock()
				r := ctl.Running
				ctl.Mu.Unlock()
				if r {
					continue
				}
			}
			ctl.Allow(op, realtime.Millisecond)
		}
		settle()
	}
	flags := ctl.Flags
	if !returned {
		flags = append(flags, "deadlock")
	} else {
		ctl.Mu.Lock()
		if o.panicked != nil {
			flags = append(flags, "panic")
		}
		if ctl.Running {
			flags = append(flags, "returned-while-the-process-is-still-running")
		}
		if !ctl.Waited {
			flags = append(flags, "returned-without-waiting-for-the-process")
		}
		if ctl.Hit && o.err == nil && o.panicked == nil {
			flags = append(flags, "command-stopped-by-the-deadline-reported-as-success")
		}
		code := 0
		switch o.err {
		case nil:
		case context.DeadlineExceeded:
			code = 1
		case os.ErrProcessDone:
			code = 2
		default:
			code = 4
		}
		if !ctl.SigOK && code != ctl.WaitErrCode && o.panicked == nil {
			flags = append(flags, "result-differs-from-wait-although-no-signal-was-delivered")
		}
		if code == 1 && !ctl.CtxFired {
			flags = append(flags, "timed-out-reported-before-the-deadline")
		}
		ctl.Mu.Unlock()
	}
	fmt.Printf("REPLAY mismatches=%%d %%v returned=%%v err=%%v errors=%%v\n", len(ctl.Mismatch), ctl.Mismatch, returned, o.err, flags)
}
"""

def gated_schedule(v):
    steps = []
    for s in v.get('schedule', []):
        op = s.get('op') or ''
        if s.get('env'):
            steps.append(('env', s['env']))
        elif op.endswith('(*os.Process).Signal'):
            steps.append(('op', 'Signal'))
        elif op.endswith('(*os.Process).Kill'):
            steps.append(('op', 'Kill'))
        elif op.endswith('(*os/exec.Cmd).Wait'):
            steps.append(('op', 'Wait'))
        elif op.endswith('invoke:Err'):
            steps.append(('op', 'Err'))
        elif 'goroutine' in s and s.get('goroutine') is not None:
            steps.append(('settle', ''))
    return steps

def replay_gated(pid, r, want, env):
    repo = os.environ.get('VERIF_REPO', '/repo')
    v = r['violation']
    fc = v.get('free_choices', {})
    d = tempfile.mkdtemp(prefix='verif-replay-wosg-')
    try:
        src = open(os.path.join(repo, 'testscript', 'testscript.go')).read()
        body = extract_func(src, 'waitOrStop')
        # helpers of the same file that the function may call
        for helper in ('interruptProcess',):
            if helper + '(' in body:
                try:
                    body += '\n\n' + extract_func(src, helper)
                except ValueError:
                    pass
        files = {
            'go.mod': 'module wosr\n\ngo 1.22\n',
            'ctl/ctl.go': CTL, 'fake/context/context.go': FAKE_CONTEXT, 'fake/os/os.go': FAKE_OS,
            'fake/exec/exec.go': FAKE_EXEC, 'fake/time/time.go': FAKE_TIME,
            'wos/wos.go': WOS_FILE_HEAD + body + '\n',
        }
        sched0 = gated_schedule(v)
        # Channel operations and select are the real ones and cannot be held back: a goroutine blocked
        # in a select proceeds the moment a case becomes ready. An environment event that the schedule
        # places after such ungated steps is independent of them, so the run in which it happens just
        # before them is the same run of the system; that variant is tried as well.
        early = list(sched0)
        for i in range(len(early)):
            if early[i][0] == 'env':
                j = i
                # (a deadline or timer event also commutes with the waiting goroutine's Cmd.Wait, which reads neither)
                while j > 0 and (early[j - 1][0] == 'settle' or (early[j - 1] == ('op', 'Wait') and early[j][1] in ('deadline-fires', 'timer-fires', 'derived-timeout-fires'))):
                    early[j - 1], early[j] = early[j], early[j - 1]
                    j -= 1
        b = lambda k: 'true' if fc.get(k) == 'True' else 'false'
        for name, text in files.items():
            path = os.path.join(d, name)
            os.makedirs(os.path.dirname(path), exist_ok=True)
            open(path, 'w').write(text)
        last = ''
        variants = [sched0] + ([early] if early != sched0 else [])
        for attempt in range(6):   # a select with two ready cases picks at random: retry
            sched = variants[attempt % len(variants)]
            lit = '[][2]string{' + ', '.join('{"%s", "%s"}' % (a, b2) for a, b2 in sched) + '}'
            open(os.path.join(d, 'wos/replay_test.go'), 'w').write(WOS_TEST % dict(sched=lit, dl=b('DEADLINE_SET'), self=b('EXITS_BY_ITSELF'), ign=b('IGNORES_INTERRUPT'), fails=b('SELF_FAILS'), kd=50))
            p = subprocess.run(['go', 'test', '-count=1', '-vet=off', '-timeout', '60s', '-run', '^TestReplay$', '-v', './wos'], cwd=d, capture_output=True, text=True, env=env)
            out = p.stdout + p.stderr
            rl = [l for l in out.split('\n') if l.startswith('REPLAY ')]
            if not rl:
                return False, 'schedule-driven replay did not build or run: ' + out[-600:]
            last = rl[0]
            got = set(rl[0].split('errors=', 1)[1].strip('[] \n').split())
            if want & got:
                return True, 'schedule-driven replay of the real waitOrStop text (attempt %d): %s' % (attempt + 1, rl[0])
        return False, 'schedule-driven replay: ' + last
    finally:
        subprocess.run(['rm', '-rf', d])

def replay_wos(pid, r, tmp):
    repo = os.environ.get('VERIF_REPO', '/repo')
    v = r['violation']
    want = set(e[len('err.'):] if e.startswith('err.') else e for e in v.get('errors', []))
    if v['kind'] == 'deadlock':
        want = {'deadlock'}
    env = dict(os.environ, GOFLAGS='-mod=mod', GOPROXY='off', GOSUMDB='off', GOTOOLCHAIN='local')
    gated_note = ''
    if v.get('schedule'):
        try:
            ok, rep = replay_gated(pid, r, want, env)
        except Exception as e:
            ok, rep = False, 'schedule-driven replay failed: %r' % (e,)
        if ok:
            return True, rep
        gated_note = rep + ' || '
    d = tempfile.mkdtemp(prefix='verif-replay-wos-')
    try:
        hd = os.path.join(d, 'helper')
        os.makedirs(hd)
        open(os.path.join(hd, 'go.mod'), 'w').write('module woshelper\n\ngo 1.22\n')
        open(os.path.join(hd, 'main.go'), 'w').write(HELPER)
        hb = os.path.join(d, 'woshelper')
        p = subprocess.run(['go', 'build', '-o', hb, '.'], cwd=hd, capture_output=True, text=True, env=env)
        if p.returncode != 0:
            return False, 'cannot build the helper process: ' + (p.stdout + p.stderr)[-800:]
        tf = os.path.join(d, 'wos_replay_test.go')
        open(tf, 'w').write(TEST)
        ov = os.path.join(d, 'overlay.json')
        json.dump({'Replace': {os.path.join(repo, 'testscript', 'zz_wos_replay_test.go'): tf}}, open(ov, 'w'))
        env['WOS_HELPER_BIN'] = hb
        p = subprocess.run(['go', 'test', '-count=1', '-vet=off', '-timeout', '120s', '-overlay', ov, '-run', '^TestWosReplay$', '-v', './testscript'],
                           cwd=repo, capture_output=True, text=True, env=env)
        out = p.stdout + p.stderr
        lines = [l for l in out.split('\n') if l.startswith('REPLAY ') or l.startswith('SCENARIO ')]
        rl = [l for l in lines if l.startswith('REPLAY ')]
        if not rl:
            return False, 'native replay produced no result: ' + out[-1500:]
        got = set(rl[0].split('errors=', 1)[1].strip('[] \n').split())
        reproduced = bool(want & got)
        return reproduced, gated_note + ('model flags %s; real code, real processes: ' % sorted(want)) + ' | '.join(lines)
    finally:
        subprocess.run(['rm', '-rf', d])

if __name__ == '__main__':
    import sys
    ok, rep = replay_wos('C17', {'violation': {'kind': 'safety', 'errors': sys.argv[1:]}, 'config': {'mode': 'wos'}}, None)
    print(ok)
    print(rep.replace(' | ', '\n'))
